"""R49 EXTENT-STALE (C09, C03): a buffer sized from a header value is not used after that value has changed.

Path-sensitive, in the text-file loaders: when a local buffer is allocated with a size computed from a scanner-state
value (`reference = calloc(tps.tps_ports, ...)`) the pair (buffer, size source) is remembered.  If the size source
is assigned again on the path (a second `[Number of Ports]` line) while the buffer is still the one allocated for
the old value, every later use of the buffer - handing it to a function, subscripting it - works with a length
that no longer matches: with a larger new value the consumer reads past the allocation.  Freeing or re-allocating
the buffer clears the fact; re-assigning the size source with the buffer not yet allocated is harmless.
"""
from ..core import Finding, RuleResult
from ..facts import AnalysisBroken
from ..flow import Engine, Tracker, TooManyStates
from ..util import base_var

PROPS = ("C09", "C03")
FILES = ("vnadata_load_touchstone.c", "vnadata_load_npd.c", "vnacal_load.c")
ALLOCS = ("malloc", "calloc", "realloc")


def atoms_of(e):
    out = set()
    bases = set()
    for m in e.walk():
        if m.k == "MemberExpr":
            out.add(m.text())
            b = base_var(m)
            if b is not None:
                bases.add(b.id)
    for m in e.walk():
        if m.k == "DeclRefExpr" and m.refkind in ("local", "param") and m.id not in bases and \
                (m.ctype or "").replace("const ", "") in ("int", "unsigned int", "long", "size_t"):
            out.add(m.refname)
    return out


class StaleTracker(Tracker):
    def __init__(self):
        self.bad = {}
        self.nbuf = set()

    def initial(self, fn):
        return frozenset()          # {(buffer name, frozenset(size atoms), stale?)} + {("nn", name)}: name is known >= 0

    def branch(self, st, cond, truth, ctx):
        c = cond.strip()
        if c.k == "BinaryOperator" and c.op in ("<", ">=", "==", "!="):
            a, b = c.kids[0].strip(), c.kids[1].strip()
            if a.k in ("DeclRefExpr", "MemberExpr") and b.cv is not None:
                nm = a.text()
                if b.cv == 0 and ((c.op == "<" and not truth) or (c.op == ">=" and truth)):
                    return st | {("nn", nm)}
                if b.cv == 0 and ("nn", nm) in st and ((c.op == "<" and truth) or (c.op == ">=" and not truth)):
                    return None              # value known >= 0 cannot be negative
                if b.cv == -1 and ("nn", nm) in st:
                    if (c.op == "==" and truth) or (c.op == "!=" and not truth):
                        return None          # value known >= 0 cannot be -1
        return st

    def step(self, st, n, ctx):
        if n.k == "BinaryOperator" and n.op == "=":
            l = n.kids[0].strip()
            r = n.kids[1].strip()
            while r.k == "BinaryOperator" and r.op == "=":
                r = r.kids[1].strip()
            ltxt = l.text()
            # allocation into a local pointer
            if l.k == "DeclRefExpr" and l.refkind == "local" and r.k == "CallExpr" and r.callee in ALLOCS:
                size_atoms = set()
                for a in r.args():
                    size_atoms |= atoms_of(a)
                size_atoms.discard(l.refname)
                st = frozenset(x for x in st if x[0] == "nn" or x[0] != l.refname)
                if size_atoms:
                    self.nbuf.add((ctx.fn.name, l.refname))
                    st = st | {(l.refname, frozenset(size_atoms), False)}
                return [st]
            # assignment to a size source
            st = frozenset(x for x in st if not (x[0] == "nn" and x[1] == ltxt))
            new = {x for x in st if x[0] == "nn"}
            for (b, atoms, stale) in (x for x in st if x[0] != "nn"):
                if ltxt in atoms and not (r.k in ("DeclRefExpr", "MemberExpr") and r.text() == ltxt):
                    new.add((b, atoms, True))
                else:
                    new.add((b, atoms, stale))
            # the buffer variable itself reassigned (NULL, another pointer): forget it
            if l.k == "DeclRefExpr":
                new = {x for x in new if x[0] == "nn" or x[0] != l.refname}
            return [frozenset(new)]
        if n.k == "CallExpr":
            if n.callee == "free" and n.args():
                b = base_var(n.args()[0])
                if b is not None:
                    return [frozenset(x for x in st if x[0] == "nn" or x[0] != b.refname)]
                return [st]
            for a in n.args():
                a_s = a.strip()
                if a_s.k == "DeclRefExpr":
                    for x in st:
                        if x[0] != "nn" and x[2] and x[0] == a_s.refname:
                            self.bad.setdefault(x[0], (n, sorted(x[1]), ctx.trace()))
            # &local passed to a callee: the callee may set the size source (expect_nnint_arg(&nss, &ports))
            new = set(st)
            for a in n.args():
                a_s = a.strip()
                if a_s.k == "UnaryOperator" and a_s.op == "&":
                    t = a_s.kids[0].strip().text()
                    new = {x for x in new if not (x[0] == "nn" and x[1] == t)}
                    new = {x if x[0] == "nn" else (x[0], x[1], True if t in x[1] else x[2]) for x in new}
            return [frozenset(new)]
        if n.k == "ArraySubscriptExpr":
            b = n.kids[0].strip()
            if b.k == "DeclRefExpr":
                for x in st:
                    if x[0] != "nn" and x[2] and x[0] == b.refname:
                        self.bad.setdefault(x[0], (n, sorted(x[1]), ctx.trace()))
        return [st]


def run(P, tier="quick"):
    R = RuleResult("R49", "in the file loaders no buffer allocated with a size taken from a header value is used after that value "
                   "was assigned again", floor=2)
    nb = 0
    for file in FILES:
        for f in P.by_file.get(file, []):
            if f.cfg is None or not any(c.callee in ALLOCS for c in f.calls()):
                continue
            tr = StaleTracker()
            key = "R49|%s|%s|buffers" % (file, f.name)
            try:
                Engine(f, tr, 200000).run()
            except TooManyStates:
                R.unclassified(key, "too many states", PROPS)
                continue
            if not tr.nbuf:
                continue
            nb += len(tr.nbuf)
            if not tr.bad:
                R.ok(key, PROPS)
            for b, (n, atoms, trace) in sorted(tr.bad.items()):
                R.violated(Finding("R49", PROPS, file, f.name, "stale:" + b,
                                   "`%s` was allocated with a size computed from %s, which is assigned again later on the path; at line "
                                   "%d the buffer is used (%s) with the length it had for the old value: a larger new value makes the "
                                   "consumer read past the allocation" % (b, ", ".join(atoms), n.line, n.text()[:50]), n.line, trace))
    R.counts["sized_buffers"] = nb
    if nb < 2:
        raise AnalysisBroken("R49: only %d header-sized buffers found in the loaders" % nb)
    R.check_floor()
    return R

"""R51 LOAD-INIT (C09): a loader that reports success has given the object its type and dimensions.

"... or succeeds with a self-consistent object" (C09).  The Touchstone and NPD loaders shape the destination with
vnadata_init / vnadata_resize once they know the parameter type and the number of ports.  On every path of the
loader functions that ends in success - `return 0`, or the assignment `rc = 0` of the variable the function returns
- such a call (or a call of a loader helper that itself has this property) must have happened.  A path that reaches
success without it (for example the branch that takes a first data line with five fields for noise data and jumps
to the noise parser) returns an object that still has the type and data of whatever it held before.
"""
from ..core import Finding, RuleResult
from ..facts import AnalysisBroken
from ..flow import Engine, Tracker, TooManyStates

PROPS = ("C09",)
SHAPERS = {"vnadata_init", "vnadata_resize"}
LOADERS = (("load_touchstone1", "vnadata_load_touchstone.c"), ("_vnadata_load_touchstone", "vnadata_load_touchstone.c"),
           ("_vnadata_load_npd", "vnadata_load_npd.c"))


class InitTracker(Tracker):
    def __init__(self, shapers, retvar):
        self.shapers, self.retvar = shapers, retvar
        self.bad = None

    def initial(self, fn):
        return False

    def step(self, st, n, ctx):
        if n.k == "CallExpr" and n.callee in self.shapers:
            return [True]
        success = False
        if n.k == "ReturnStmt" and n.kids and n.kids[0].strip().cv == 0:
            success = True
        if n.k == "BinaryOperator" and n.op == "=" and n.kids[0].strip().k == "DeclRefExpr" and \
                n.kids[0].strip().refdecl == self.retvar and n.kids[1].strip().cv == 0:
            success = True
        if success and not st and self.bad is None:
            self.bad = (n, ctx.trace())
        return [st]

    def branch(self, st, cond, truth, ctx):
        # the failure edge of a shaper call does not count as shaped
        return st


def run(P, tier="quick"):
    R = RuleResult("R51", "every success exit of the Touchstone/NPD loader functions is preceded by vnadata_init/vnadata_resize (or by "
                   "a loader helper that guarantees it)", floor=3)
    shapers = set(SHAPERS)
    for name, file in LOADERS:
        f = P.need_func(name, file)
        retvar = None
        for r in f.returns():
            if r.kids and r.kids[0].strip().k == "DeclRefExpr" and r.kids[0].strip().refkind == "local":
                retvar = r.kids[0].strip().refdecl
        tr = InitTracker(shapers, retvar)
        key = "R51|%s|%s|shaped-on-success" % (file, name)
        try:
            Engine(f, tr, 400000).run()
        except TooManyStates:
            R.unclassified(key, "too many states", PROPS)
            continue
        if tr.bad is None:
            R.ok(key, PROPS)
            shapers.add(name)
        else:
            n, trace = tr.bad
            R.violated(Finding("R51", PROPS, file, name, "shaped-on-success",
                               "%s() can reach its success exit (line %d) on a path that never called vnadata_init/vnadata_resize: the "
                               "caller gets rc 0 and an object that still has the shape and data it had before the load" %
                               (name, n.line), n.line, trace))
    R.check_floor()
    return R

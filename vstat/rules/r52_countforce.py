"""R52 FORCED-COUNT / MERGE-START (C09, C08): a count of filled slots is not raised by decree, and a merge keeps every element.

A *slot count* is an integer member that some function of the file advances with `++` as it fills a slot (the NPD
scanner's nss_field_count).  Two things are checked wherever such a count is assigned a constant K >= 1:
  FORCED   the assignment must not raise the count above the number of slots that exist: it is dominated by a test
           that the count is at least K (`count >= K`, `count > K-1`, or the refusal `count < K -> leave`), or it is
           written as a minimum.  `count = 2` on a record that has one field makes the reader of slot 1 use an index
           that was never stored.
  MERGE    when a loop `for (s = A; s < count; ++s)` in front of the assignment folds the slots from A upward into
           their predecessor (it writes through slot s at a negative offset), the first folded slot must be K: slots
           K..count-1 are glued to slot K-1 and then dropped by `count = K`.  With A = K+1 slot K is neither glued
           nor kept, so `#:parameters Sri Zri Yri` silently loses "Zri Yri".
"""
from ..core import Finding, RuleResult
from ..facts import AnalysisBroken

PROPS = ("C09", "C08")
FILES = ("vnadata_load_npd.c", "vnadata_load_touchstone.c", "vnacal_load.c")


def dominates(cfg, a, b):
    pa, pb = cfg.pos_of(a), cfg.pos_of(b)
    if pa is None or pb is None:
        return False
    if pa[0] == pb[0]:
        return pa[1] <= pb[1]
    return cfg.block_dominates(pa[0], pb[0])


def run(P, tier="quick"):
    R = RuleResult("R52", "a constant assigned to a count of filled slots never raises it (dominating count >= K test), and a merge "
                   "loop in front of it starts at the new count", floor=1)
    n = 0
    for file in FILES:
        counts = set()
        for f in P.by_file.get(file, []):
            if f.body is None:
                continue
            for m in f.walk():
                if m.k == "UnaryOperator" and m.op == "++" and m.kids[0].strip().k == "MemberExpr":
                    counts.add(m.kids[0].strip().member)
        # ... and bounds a loop somewhere in the file (`s < X->count`): a count of slots, not a line counter
        bounds = set()
        for f in P.by_file.get(file, []):
            if f.body is None:
                continue
            for lp in f.walk():
                if lp.k == "ForStmt" and lp.kids[2] is not None:
                    c = lp.kids[2].strip()
                    if c.k == "BinaryOperator" and c.op in ("<", "<=") and c.kids[1].strip().k == "MemberExpr":
                        bounds.add(c.kids[1].strip().member)
        counts &= bounds
        for f in P.by_file.get(file, []):
            if f.cfg is None:
                continue
            for m in f.walk():
                if m.k != "BinaryOperator" or m.op != "=":
                    continue
                l, r = m.kids[0].strip(), m.kids[1].strip()
                if l.k != "MemberExpr" or l.member not in counts or r.k != "IntegerLiteral" or r.val < 1:
                    continue
                K = r.val
                n += 1
                key = "R52|%s|%s|force:%s=%d" % (file, f.name, l.member, K)
                guarded = False
                for t in f.walk():
                    if t.k == "BinaryOperator" and t.op in ("<", "<=", ">", ">=", "!=", "=="):
                        a, b = t.kids[0].strip(), t.kids[1].strip()
                        for x, y, op in ((a, b, t.op), (b, a, {"<": ">", ">": "<", "<=": ">=", ">=": "<=", "!=": "!=", "==": "=="}[t.op])):
                            if x.k == "MemberExpr" and x.member == l.member and y.cv is not None and dominates(f.cfg, t, m):
                                # count >= K / count > K-1 as a condition around the store, or count < K / != K as a refusal before it
                                inside = any(a_.k == "IfStmt" and [z for z in a_.kids if z is not None][0].is_ancestor_of(t) and
                                             [z for z in a_.kids if z is not None][1].is_ancestor_of(m) for a_ in m.ancestors())
                                if inside and ((op == ">=" and y.cv >= K) or (op == ">" and y.cv >= K - 1) or (op == "==" and y.cv >= K)):
                                    guarded = True
                                if not inside and ((op == "<" and y.cv >= K) or (op == "<=" and y.cv >= K - 1) or
                                                   (op == "!=" and y.cv >= K)):
                                    # a refusal `if (count < K) leave` in front
                                    ifs = [a_ for a_ in t.ancestors() if a_.k == "IfStmt"]
                                    if ifs and any(z.k in ("ReturnStmt", "GotoStmt") for z in [q for q in ifs[0].kids if q is not None][1].walk()):
                                        guarded = True
                problems = []
                if not guarded:
                    problems.append("`%s` can raise %s: no test that it is already at least %d controls the assignment, so slot %d may "
                                    "never have been filled" % (m.text(), l.member, K, K - 1))
                # MERGE
                for lp in f.walk():
                    if lp.k == "ForStmt" and lp.kids[2] is not None and lp.line <= m.line and not lp.is_ancestor_of(m):
                        c = lp.kids[2].strip()
                        if c.k == "BinaryOperator" and c.op == "<" and c.kids[1].strip().k == "MemberExpr" and \
                                c.kids[1].strip().member == l.member:
                            init = lp.kids[0]
                            A = None
                            if init is not None:
                                for v in init.walk():
                                    if v.k == "VarDecl" and v.kids:
                                        A = v.kids[0].strip().cv
                            negoff = any(x.k == "ArraySubscriptExpr" and x.kids[1].strip().cv is not None and x.kids[1].strip().cv < 0
                                         for x in (lp.kids[4].walk() if lp.kids[4] is not None else []))
                            if negoff and A is not None and A != K:
                                problems.append("the loop at line %d folds slots %d.. into their predecessors but the count is then set "
                                                "to %d: slot %d is neither folded nor kept" % (lp.line, A, K, K))
                if problems:
                    R.violated(Finding("R52", PROPS, file, f.name, "force:%s=%d" % (l.member, K), "; ".join(problems), m.line))
                else:
                    R.ok(key, PROPS)
    R.counts["constant_count_stores"] = n
    if n < 1:
        raise AnalysisBroken("R52: no constant store to a slot count found (scan_line sets nss_field_count = 2)")
    R.check_floor()
    return R

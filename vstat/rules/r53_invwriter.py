"""R53 INVARIANT-WRITER (C15): rows beyond the current frequency count keep their initial values.

vnadata_alloc.c: "cells beyond the current frequencies, cells or ports values are always filled with initial values".
Rows f with vd_frequencies <= f < vdi_f_allocation exist in the allocation and become visible on the next regrow.
A loop that runs to the *allocation* (`f < vdi_f_allocation`) and stores into row f anything but the initial value
(0, or VNADATA_DEFAULT_Z0) breaks the invariant unless the store is conditional on `f < vd_frequencies`: switching an
object to per-frequency impedances after a shrink then plants the current z0 in hidden rows, and a later regrow
presents it instead of 50 ohm.  Loops bounded by vd_frequencies, and stores of the initial value, are fine.
"""
from ..core import Finding, RuleResult
from ..facts import AnalysisBroken

PROPS = ("C15",)


def is_initial(e):
    e = e.strip()
    if e.cv == 0:
        return True
    if e.k == "FloatingLiteral" and ("VNADATA_DEFAULT_Z0" in e.macros or e.val == 0.0):
        return True
    return any("VNADATA_DEFAULT_Z0" in m.macros for m in e.walk())


def run(P, tier="quick"):
    R = RuleResult("R53", "loops over all allocated frequency rows (bound vdi_f_allocation) store only initial values into rows that "
                   "may lie beyond vd_frequencies", floor=1)
    n = 0
    for f in P.lib_functions():
        if f.body is None or not f.file.startswith("vnadata"):
            continue
        for lp in f.walk():
            if lp.k != "ForStmt" or lp.kids[2] is None or lp.kids[4] is None:
                continue
            c = lp.kids[2].strip()
            if c.k != "BinaryOperator" or c.op not in ("<", "<=") or c.kids[1].strip().k != "MemberExpr" or \
                    c.kids[1].strip().member != "vdi_f_allocation" or c.kids[0].strip().k != "DeclRefExpr":
                continue
            iv = c.kids[0].strip().refdecl
            for m in lp.kids[4].walk():
                if m.k != "BinaryOperator" or m.op != "=":
                    continue
                l = m.kids[0].strip()
                # X[f][...] = value   (an element of row f), not the row pointer itself
                if l.k != "ArraySubscriptExpr" or l.kids[0].strip().k != "ArraySubscriptExpr":
                    continue
                row = l.kids[0].strip()
                if not (row.kids[1].strip().k == "DeclRefExpr" and row.kids[1].strip().refdecl == iv):
                    continue
                n += 1
                key = "R53|%s|%s|row-store#%d" % (f.file, f.name, n)
                cond = any(a.k in ("IfStmt", "ConditionalOperator") and "vd_frequencies" in [x for x in a.kids if x is not None][0].text()
                           for a in m.ancestors()) or \
                    (m.kids[1].strip().k == "ConditionalOperator" and "vd_frequencies" in m.kids[1].strip().kids[0].text())
                if is_initial(m.kids[1]) or cond:
                    R.ok(key, PROPS)
                else:
                    R.violated(Finding("R53", PROPS, f.file, f.name, "row-store:" + row.kids[0].text()[-28:],
                                       "`%s` runs for every allocated row (bound vdi_f_allocation) and stores %s, which is not the "
                                       "initial value, also into rows at or beyond vd_frequencies: a later regrow exposes it where a "
                                       "fresh row shows 50 ohm / 0" % (m.text()[:70], m.kids[1].text()[:40]), m.line))
    R.counts["allocated_row_stores"] = n
    if n < 1:
        raise AnalysisBroken("R53: no store into the allocated frequency rows found (_vnadata_convert_to_fz0 expected)")
    R.check_floor()
    return R

"""R54 SHAPE-SIBLING (C09, C07): what vnacal_new_alloc refuses as a calibration shape, vnacal_load refuses too.

A calibration enters a vnacal_t either through vnacal_new_alloc (+ solve) or through vnacal_load.  Every consumer
(vnacal_apply's fill_* functions assert their shape, the layout arithmetic assumes rows <= columns for T and
rows >= columns for U/E types) relies on the shape rules vnacal_new_alloc enforces:
    rows >= 1 and columns >= 1;  T8/TE10/T16: not rows > columns;  U8/UE10/UE14/U16/E12: not rows < columns.
The rule extracts those refusals from vnacal_new_alloc (comparisons of its row/column parameters inside refusing
ifs, with the case labels of the enclosing switch) and requires refusals of the same comparisons, under case
labels covering the same enumerators, in the function of vnacal_load.c that reads "rows"/"columns" and calls
_vnacal_calibration_alloc.
"""
from ..core import Finding, RuleResult
from ..facts import AnalysisBroken

PROPS = ("C09", "C07")


def refusals(f, rname, cname, reporters):
    """{(kind, frozenset(case labels))}: kind in rows>columns, rows<columns, rows<1, columns<1"""
    out = set()
    for n in f.walk():
        if n.k != "IfStmt":
            continue
        kids = [x for x in n.kids if x is not None]
        top = kids[1].kids if kids[1].k == "CompoundStmt" else [kids[1]]
        if not any(t is not None and t.k in ("ReturnStmt", "GotoStmt") for t in top):
            continue
        if not any(c.callee in reporters for c in kids[1].calls()):
            continue
        labels = set()
        for a in n.ancestors():
            if a.k == "SwitchStmt":
                # the case labels in front of this statement (fall-through groups)
                grp = []
                for st in a.kids[-1].kids:
                    t = st
                    lab = []
                    while t is not None and t.k in ("CaseStmt", "DefaultStmt"):
                        if t.k == "CaseStmt":
                            lab.append(t.kids[0].strip().refname or str(t.get("val")))
                        t = t.kids[-1]
                    if lab:
                        # a group that ends without break falls into the next one
                        grp = grp + lab if grp and not _ends(prev_stmts) else lab
                        prev_stmts = [t]
                    else:
                        prev_stmts.append(st)
                    if st.is_ancestor_of(n) or (t is not None and t.is_ancestor_of(n)) or st is n:
                        labels = set(grp)
                        break
        for t in kids[0].walk():
            if t.k == "BinaryOperator" and t.op in ("<", ">", "<=", ">="):
                a, b = t.kids[0].strip(), t.kids[1].strip()
                an, bn = a.refname, b.refname
                op = t.op
                if an == cname and bn == rname:
                    an, bn, op = rname, cname, {"<": ">", ">": "<", "<=": ">=", ">=": "<="}[op]
                if an == rname and bn == cname and op in (">", "<"):
                    out.add(("rows%scolumns" % op, frozenset(labels)))
                if an in (rname, cname) and b.cv == 1 and op == "<":
                    out.add(("%s<1" % ("rows" if an == rname else "columns"), frozenset()))
    return out


def _ends(stmts):
    last = None
    for s in stmts:
        if s is not None:
            last = s
    if last is None:
        return False
    return any(m.k in ("BreakStmt", "ReturnStmt", "GotoStmt") for m in last.walk()) and last.k != "IfStmt" or \
        (last.k == "BreakStmt")


def run(P, tier="quick"):
    R = RuleResult("R54", "vnacal_load refuses the calibration shapes vnacal_new_alloc refuses (at least 1x1; T types rows <= columns; "
                   "U and E types rows >= columns)", floor=4)
    fa = P.need_func("vnacal_new_alloc", "vnacal_new.c")
    ra = refusals(fa, fa.params[2]["name"], fa.params[3]["name"], ("_vnacal_error",))
    if not any(k.startswith("rows>") for k, _ in ra) or not any(k.startswith("rows<c") for k, _ in ra):
        raise AnalysisBroken("vnacal_new_alloc: shape refusals (rows > columns, rows < columns) not found")
    fl = None
    for f in P.by_file.get("vnacal_load.c", []):
        if f.body is not None and f.calls("_vnacal_calibration_alloc"):
            fl = f
    if fl is None:
        raise AnalysisBroken("vnacal_load.c: function calling _vnacal_calibration_alloc not found")
    call = fl.calls("_vnacal_calibration_alloc")[0]
    rn, cn = call.args()[2].strip().refname, call.args()[3].strip().refname
    rl = refusals(fl, rn, cn, ("_vnacal_error",))
    for kind, labels in sorted(ra, key=lambda x: x[0]):
        key = "R54|vnacal_load.c|%s|%s" % (fl.name, kind)
        match = [lb for (k, lb) in rl if k == kind]
        want = {x for x in labels if x not in ("_VNACAL_E12_UE14",)}
        ok = bool(match) and (not want or any(want <= set(lb) for lb in match))
        if ok:
            R.ok(key, PROPS)
        else:
            R.violated(Finding("R54", PROPS, "vnacal_load.c", fl.name, "shape:" + kind,
                               "vnacal_new_alloc refuses `%s`%s, but %s() accepts such a calibration from a file: vnacal_apply's fill "
                               "functions assert the shape and the layout arithmetic assumes it" %
                               (kind, " for %s" % "/".join(sorted(want)) if want else "", fl.name), fl.line))
    R.check_floor()
    return R

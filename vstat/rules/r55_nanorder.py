"""R55 NAN-REFUSAL (C09): a floating value read from a calibration file and validated by comparisons is also refused when it is NaN.

"... or succeeds with a self-consistent object: ... strictly ascending calibration frequencies" (C09).  The .vnacal
loader reads numbers with sscanf("%lf") / strtod, which accept the text `nan`.  Every ordered comparison with a NaN
operand is false, so a validation written as a list of refusals `if (v < lo) fail; if (v <= previous) fail;` lets
NaN through: each refusal is false.  Instances: every `double` local of vnacal_load.c that (a) is filled through its
address by a static helper that reaches sscanf/strtod, (b) is the left or right operand of at least one relational
refusal (an `if` whose branch leaves the function) and (c) is then stored into an object (a member, or an element of
a member vector).  For each, a test that is false for NaN must dominate the store: a call of isnan / isfinite /
isnormal / fpclassify on it (not isinf, which is false for NaN) (also as the macros' builtin forms), the self comparison `v != v`, or the refusals written in
negated-accept form `!(v >= lo)`.
"""
from ..core import Finding, RuleResult
from ..facts import AnalysisBroken
from ..flow import Engine, Tracker, TooManyStates

PROPS = ("C09",)
FILES = ("vnacal_load.c",)
SCANNERS = {"sscanf", "strtod", "strtof", "strtold", "atof", "fscanf"}
# tests whose outcome separates NaN from every ordinary value; isinf() does not (it is false for NaN and for 1.0 alike)
NANTESTS = ("isnan", "isfinite", "fpclassify", "__builtin_isnan", "__builtin_isfinite", "__builtin_fpclassify", "__isnan",
            "__finite", "isnormal", "__builtin_isnormal")
REL = ("<", "<=", ">", ">=")


def dominates(cfg, a, b):
    pa, pb = cfg.pos_of(a), cfg.pos_of(b)
    if pa is None or pb is None:
        return False
    if pa[0] == pb[0]:
        return pa[1] <= pb[1]
    return cfg.block_dominates(pa[0], pb[0])


def reaches_scanner(P, f, depth=3, seen=None):
    seen = seen or set()
    if f is None or f.body is None or f.key() in seen:
        return False
    seen.add(f.key())
    for c in f.calls():
        if c.callee in SCANNERS:
            return True
        if depth > 0:
            g = P.func(c.callee, f.file) if hasattr(P, "func") else None
            if g is not None and g.static and reaches_scanner(P, g, depth - 1, seen):
                return True
    return False


class NanTracker(Tracker):
    """state: True while the variable may hold an unchecked value read from the file"""
    def __init__(self, decl, helpers, stores):
        self.decl, self.helpers, self.stores = decl, helpers, {m.id for m in stores}
        self.bad = None

    def initial(self, fn):
        return False

    def mentions(self, e):
        return any(x.k == "DeclRefExpr" and x.refdecl == self.decl for x in e.walk())

    def step(self, st, n, ctx):
        if n.k == "CallExpr":
            if n.callee in self.helpers and any(a.strip().k == "UnaryOperator" and a.strip().op == "&" and self.mentions(a)
                                                for a in n.args()):
                return [True]
            if n.callee in NANTESTS and any(self.mentions(a) for a in n.args()):
                return [False]
        if n.k == "BinaryOperator" and n.op in ("!=", "==") and all(
                k_.strip().k == "DeclRefExpr" and k_.strip().refdecl == self.decl for k_ in n.kids):
            return [False]
        if n.k == "BinaryOperator" and n.op == "=":
            l = n.kids[0].strip()
            if l.k == "DeclRefExpr" and l.refdecl == self.decl:
                return [False]
            if n.id in self.stores and st and self.bad is None:
                self.bad = (n, ctx.trace())
        return [st]


def leaves(stmt):
    return any(z.k in ("ReturnStmt", "GotoStmt") for z in stmt.walk())


def run(P, tier="quick"):
    R = RuleResult("R55", "every double read from the calibration file through a sscanf/strtod helper and validated by ordered refusals "
                   "before being stored into the object is also tested with isnan/isfinite (or the refusals are in negated-accept "
                   "form) on every path to the store", floor=1)
    n = 0
    for file in FILES:
        helpers = {}
        for f in P.by_file.get(file, []):
            if f.body is not None and f.static and reaches_scanner(P, f):
                helpers[f.name] = f
        if not helpers:
            raise AnalysisBroken("R55: no static helper of %s reaches sscanf/strtod" % file)
        for f in P.by_file.get(file, []):
            if f.cfg is None:
                continue
            # (a) double locals filled through their address by a scanning helper
            filled = {}
            for c in f.calls():
                if c.callee not in helpers:
                    continue
                for a in c.args():
                    a_s = a.strip()
                    if a_s.k == "UnaryOperator" and a_s.op == "&":
                        v = a_s.kids[0].strip()
                        if v.k == "DeclRefExpr" and v.refkind == "local" and (v.ctype or "") == "double":
                            filled.setdefault(v.refdecl, (v.refname, c))
            for decl, (name, call) in sorted(filled.items(), key=lambda kv: kv[1][0]):
                # (b) ordered refusals on it
                refusals, negated = [], []
                for s in f.walk():
                    if s.k != "IfStmt":
                        continue
                    kids = [z for z in s.kids if z is not None]
                    cond, then = kids[0], kids[1]
                    if not leaves(then):
                        continue
                    for t in cond.walk():
                        if t.k == "BinaryOperator" and t.op in REL and \
                                any(x.k == "DeclRefExpr" and x.refdecl == decl for k_ in t.kids for x in k_.walk()):
                            neg = any(a_.k == "UnaryOperator" and a_.op == "!" and cond.is_ancestor_of(a_) for a_ in t.ancestors())
                            (negated if neg else refusals).append(t)
                if not refusals and not negated:
                    continue
                # (c) stored into an object
                stores = []
                for m in f.walk():
                    if m.k == "BinaryOperator" and m.op == "=":
                        l, r = m.kids[0].strip(), m.kids[1].strip()
                        if r.k == "DeclRefExpr" and r.refdecl == decl and any(x.k == "MemberExpr" for x in l.walk()):
                            stores.append(m)
                if not stores:
                    continue
                n += 1
                key = "R55|%s|%s|nan:%s" % (file, f.name, name)
                tests = []
                for t in f.walk():
                    if t.k == "CallExpr" and t.callee in NANTESTS and \
                            any(x.k == "DeclRefExpr" and x.refdecl == decl for a in t.args() for x in a.walk()):
                        tests.append(t)
                    if t.k == "BinaryOperator" and t.op in ("!=", "==") and all(
                            k_.strip().k == "DeclRefExpr" and k_.strip().refdecl == decl for k_ in t.kids):
                        tests.append(t)
                tr = NanTracker(decl, helpers, stores)
                try:
                    Engine(f, tr, 400000).run()
                except TooManyStates:
                    R.unclassified(key, "too many states", PROPS)
                    continue
                bad = [tr.bad[0]] if tr.bad else []
                if negated and not refusals:
                    bad = []
                if bad:
                    R.violated(Finding("R55", PROPS, file, f.name, "nan:" + name,
                                       "`%s` is read from the file by %s() (sscanf/strtod accept the text `nan`) and validated only by "
                                       "ordered refusals (%s); every one of them is false for NaN, so `%s` at line %d stores a NaN "
                                       "into the object: no isnan/isfinite test dominates the store" %
                                       (name, call.callee, "; ".join("`%s`" % t.text()[:50] for t in refusals[:3]),
                                        bad[0].text()[:60], bad[0].line), bad[0].line))
                else:
                    R.ok(key, PROPS)
    R.counts["validated_file_doubles"] = n
    if n < 1:
        raise AnalysisBroken("R55: no file-read double with ordered refusals and an object store found (parse_data: frequency)")
    R.check_floor()
    return R

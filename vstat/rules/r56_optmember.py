"""R56 OPTIONAL-MEMBER (C03, C02): a vector member that is allocated only under a condition is never subscripted without a NULL test.

Cross-function belief check (Engler et al.: one place tests the pointer, another uses it unconditionally).
A pointer member M is *optional* when
  - every store of an allocation into it (`X->M = calloc(...)`, also inside `(X->M = calloc(..)) == NULL`) sits in the
    branch of an `if` whose condition is not the allocation test itself - the member is only allocated when some
    other condition holds (vnsm_v_matrices: "if any system is over-determined and we know the measurement errors");
  - and at least two functions of the library compare it with NULL, i.e. the code itself states that NULL is a
    legitimate value.
Every dereference of an optional member (`X->M[i]`, `*X->M`, `X->M->f`) must then be protected by a NULL test of
the same member: a test that dominates the dereference in the function (short-circuit `M != NULL && M[i]` included),
the allocating store itself, an enclosing `if` that repeats every conjunct of the allocating condition (compared
with local names erased), or - for a static function - a test that dominates every call of the function,
followed up the call graph (bounded depth) until a non-static function is reached.  A dereference that no test protects
faults when the allocating condition was false.
"""
from ..core import Finding, RuleResult
from ..facts import AnalysisBroken
from ..util import is_null

PROPS = ("C03", "C02")
ALLOCS = ("malloc", "calloc", "realloc")
DEPTH = 4


def dominates(cfg, a, b):
    pa, pb = cfg.pos_of(a), cfg.pos_of(b)
    if pa is None or pb is None:
        return False
    if pa[0] == pb[0]:
        return pa[1] <= pb[1]
    return cfg.block_dominates(pa[0], pb[0])


def alloc_store(n):
    """X->M = alloc(...) -> member name"""
    if n.k != "BinaryOperator" or n.op != "=":
        return None
    l, r = n.kids[0].strip(), n.kids[1].strip()
    if l.k != "MemberExpr" or "*" not in (l.ctype or ""):
        return None
    if r.k == "CallExpr" and r.callee in ALLOCS:
        return l.member
    return None


def fp(n):
    """name-independent fingerprint of a condition: locals and parameters are anonymous, members/enumerators/operators count"""
    n = n.strip()
    if n.k == "DeclRefExpr":
        return "_" if n.refkind in ("local", "param") else (n.refname or "?")
    if n.k == "MemberExpr":
        return fp(n.kids[0]) + "." + n.member
    if n.cv is not None:
        return str(n.cv)
    return "%s%s(%s)" % (n.k, n.op or "", ",".join(fp(k) for k in n.kids if k is not None))


def conjuncts(c):
    c = c.strip()
    if c.k == "BinaryOperator" and c.op == "&&":
        return conjuncts(c.kids[0]) + conjuncts(c.kids[1])
    return [c]


def same_condition(site, alloc_conds):
    """the site sits in the then-branch of an `if` whose conjuncts include all conjuncts of an allocating condition"""
    have = set()
    for a in site.ancestors():
        if a.k == "IfStmt":
            kids = [z for z in a.kids if z is not None]
            if len(kids) >= 2 and kids[1].is_ancestor_of(site):
                have |= {fp(x) for x in conjuncts(kids[0])}
    return any(need and need <= have for need in alloc_conds)


def null_tests(f, member):
    """comparison / truth test nodes of `...->member` in f"""
    out = []
    for n in f.walk():
        if n.k == "BinaryOperator" and n.op in ("==", "!="):
            a, b = n.kids[0].strip(), n.kids[1].strip()
            for x, y in ((a, b), (b, a)):
                if x.k == "MemberExpr" and x.member == member and is_null(y):
                    out.append(n)
    return out


def site_guarded(f, member, site, alloc_conds=()):
    if f.cfg is None:
        return False
    if same_condition(site, alloc_conds):
        return True
    for t in null_tests(f, member):
        if t.is_ancestor_of(site):
            continue
        if dominates(f.cfg, t, site):
            return True
        # short circuit in the same expression: (M != NULL && M[i] ...)
        for a in site.ancestors():
            if a.k == "BinaryOperator" and a.op in ("&&", "||") and a.kids[0].is_ancestor_of(t) and a.kids[1].is_ancestor_of(site):
                return True
            if a.k == "ConditionalOperator" and a.kids[0].is_ancestor_of(t):
                return True
    for s in f.walk():
        if alloc_store(s) == member and dominates(f.cfg, s, site):
            return True
    return False


def run(P, tier="quick"):
    R = RuleResult("R56", "every dereference of a vector member that is allocated only under a condition (and tested for NULL elsewhere) "
                   "is protected by a NULL test of that member in the function or in every caller chain", floor=1)
    funcs = [f for f in P.lib_functions() if f.body is not None]
    stores, tests, conds = {}, {}, {}
    for f in funcs:
        for n in f.walk():
            m = alloc_store(n)
            if m is not None:
                # conditional: an enclosing `if` (inside the function) whose condition does not contain the store
                cond = False
                need = set()
                for a in n.ancestors():
                    if a.k == "IfStmt":
                        kids = [z for z in a.kids if z is not None]
                        if not kids[0].is_ancestor_of(n) and kids[0].id != n.id and len(kids) >= 2 and kids[1].is_ancestor_of(n):
                            cond = True
                            need |= {fp(x) for x in conjuncts(kids[0])}
                stores.setdefault(m, []).append((f, n, cond))
                conds.setdefault(m, []).append(frozenset(need))
        for n in f.walk():
            if n.k == "BinaryOperator" and n.op in ("==", "!="):
                a, b = n.kids[0].strip(), n.kids[1].strip()
                for x, y in ((a, b), (b, a)):
                    if x.k == "MemberExpr" and is_null(y) and "*" in (x.ctype or ""):
                        tests.setdefault(x.member, set()).add(f.key())
    optional = sorted(m for m, ss in stores.items() if all(c for (_, _, c) in ss) and len(tests.get(m, ())) >= 2)
    R.counts["optional_members"] = len(optional)
    if not optional:
        raise AnalysisBroken("R56: no conditionally allocated member found (vnsm_v_matrices is allocated only for over-determined "
                             "systems with an error model)")
    callers = P.callers()
    nsites = 0
    for f in funcs:
        for n in f.walk():
            base = None
            if n.k == "ArraySubscriptExpr":
                base = n.kids[0].strip()
            elif n.k == "UnaryOperator" and n.op == "*":
                base = n.kids[0].strip()
            elif n.k == "MemberExpr" and n.get("arrow"):
                base = n.kids[0].strip()
            if base is None or base.k != "MemberExpr" or base.member not in optional:
                continue
            member = base.member
            nsites += 1
            anchor = "opt:%s@%s" % (member, f.name)
            key = "R56|%s|%s|%s" % (f.file, f.name, anchor)
            # search: function, then callers
            bad = None
            seen = set()
            work = [(f, n, 0)]
            while work and bad is None:
                g, site, d = work.pop()
                if site_guarded(g, member, site, conds.get(member, ())):
                    continue
                if not g.static or not callers.get(g.key()) or d >= DEPTH:
                    bad = (g, site)
                    break
                for (h, call) in callers.get(g.key(), []):
                    if (h.key(), call.id) in seen:
                        continue
                    seen.add((h.key(), call.id))
                    work.append((h, call, d + 1))
            if bad is None:
                R.ok(key, PROPS)
            else:
                g, site = bad
                via = "" if g is f else " (reached through %s(), line %d, without a test)" % (g.name, site.line)
                R.violated(Finding("R56", PROPS, f.file, f.name, anchor,
                                   "`%s` dereferences %s, which is allocated only under a condition (%s) and compared with NULL in %d "
                                   "functions, but no NULL test of it protects this use%s: when the allocating condition is false the "
                                   "member is NULL" %
                                   (n.text()[:60], member,
                                    "; ".join("%s:%d" % (sf.file, sn.line) for (sf, sn, _) in stores[member][:2]),
                                    len(tests[member]), via), n.line))
    R.counts["dereferences"] = nsites
    if nsites < 2:
        raise AnalysisBroken("R56: only %d dereferences of optional members found" % nsites)
    R.check_floor()
    return R

"""R57 OPTIONAL-ELEMENT (C03, C20): an element of a pointer vector whose slots may legitimately be NULL is tested before it is dereferenced.

Element-level form of the belief check of R56.  A member M of type `T **` is a *sparse vector* when at least two
functions of the library compare one of its elements with NULL (`X->M[i] == NULL`, or `p = X->M[i]; ... p != NULL`):
the code itself says that slots can be empty (vnm_s_matrix: cells of the S matrix a standard does not specify).
Every dereference of an element - `X->M[i]->f`, `s[i]->f` with `s = X->M`, `p->f` with `p = X->M[i]` - must then
be dominated by a NULL test of that element: the same subscript (compared as text) or the local it was loaded into,
or a test of an element with a loop-variable index in a loop in front (an "all slots present" sweep that refuses), or
an equality of the element with another value that is itself known not to be NULL does NOT count: `s[0] == vn_zero`
says nothing on the path where it is false.
Elements that were stored in the function itself (`X->M[i] = q` dominating the use) are accepted.
"""
from ..core import Finding, RuleResult
from ..facts import AnalysisBroken
from ..canon import Canon
from ..util import is_null

PROPS = ("C03", "C20")


def dominates(cfg, a, b):
    pa, pb = cfg.pos_of(a), cfg.pos_of(b)
    if pa is None or pb is None:
        return False
    if pa[0] == pb[0]:
        return pa[1] <= pb[1]
    return cfg.block_dominates(pa[0], pb[0])


class View:
    """per function: which expressions denote elements of which member vector"""
    def __init__(self, f):
        self.f = f
        self.c = Canon(f)

    def vector_of(self, e):
        """e denotes the vector X->M (directly or through a single-definition local): member name"""
        e = e.strip()
        if e.k == "MemberExpr" and (e.ctype or "").replace("const", "").replace(" ", "").endswith("**"):
            return e.member
        if e.k == "DeclRefExpr" and e.refkind == "local":
            d = self.c.single_def(e.refdecl)
            if d is not None and d.strip().k == "MemberExpr":
                return self.vector_of(d)
        return None

    def element_of(self, e):
        """e denotes an element: (member, index text, local decl or None)"""
        e = e.strip()
        if e.k == "ArraySubscriptExpr":
            m = self.vector_of(e.kids[0])
            if m is not None:
                return (m, e.kids[1].text(), None)
        if e.k == "DeclRefExpr" and e.refkind == "local":
            d = self.c.single_def(e.refdecl)
            if d is not None and d.strip().k == "ArraySubscriptExpr":
                r = self.element_of(d)
                if r is not None:
                    return (r[0], r[1], e.refdecl)
        return None


def run(P, tier="quick"):
    R = RuleResult("R57", "every dereference of an element of a pointer vector whose slots are compared with NULL elsewhere is dominated by "
                   "a NULL test of that element", floor=2)
    funcs = [f for f in P.lib_functions() if f.body is not None]
    views = {f.key(): View(f) for f in funcs}
    tests = {}          # member -> set of functions testing an element
    per_f_tests = {}    # f.key -> [(node, member, index text, local)]
    for f in funcs:
        v = views[f.key()]
        for n in f.walk():
            if n.k == "BinaryOperator" and n.op in ("==", "!="):
                a, b = n.kids[0].strip(), n.kids[1].strip()
                for x, y in ((a, b), (b, a)):
                    if is_null(y):
                        el = v.element_of(x)
                        if el is not None:
                            tests.setdefault(el[0], set()).add(f.key())
                            per_f_tests.setdefault(f.key(), []).append((n, el))
    sparse = sorted(m for m, fs in tests.items() if len(fs) >= 2)
    R.counts["sparse_vectors"] = len(sparse)
    if not sparse:
        raise AnalysisBroken("R57: no pointer vector with NULL-tested elements found (vnm_s_matrix, vnm_m_matrix)")
    nsites = 0
    for f in funcs:
        if f.cfg is None:
            continue
        v = views[f.key()]
        reported = set()
        for n in f.walk():
            base = None
            if n.k == "MemberExpr" and n.get("arrow"):
                base = n.kids[0].strip()
            elif n.k == "UnaryOperator" and n.op == "*":
                base = n.kids[0].strip()
            elif n.k == "ArraySubscriptExpr":
                base = n.kids[0].strip()
                if v.vector_of(base) is not None:
                    continue            # this is the element access itself, not a dereference of the element
            if base is None:
                continue
            el = v.element_of(base)
            if el is None or el[0] not in sparse:
                continue
            member, idx, local = el
            nsites += 1
            ok = False
            for (t, tel) in per_f_tests.get(f.key(), []):
                if tel[0] != member or t.is_ancestor_of(n):
                    continue
                same = (tel[1] == idx) or (local is not None and tel[2] == local)
                # a sweep over all slots: element with a loop-variable index, in a loop that is not around the site
                sweep = False
                if not same:
                    for a in t.ancestors():
                        if a.k == "ForStmt" and not a.is_ancestor_of(n) and a.kids[0] is not None and a.kids[2] is not None and \
                                any(x.k == "VarDecl" and x.get("name") == tel[1] for x in a.kids[0].walk()):
                            # the sweep refuses (its `if` leaves the function), the loop is in front of the site, and a
                            # constant index lies inside a constant bound
                            ifs = [q for q in t.ancestors() if q.k == "IfStmt" and a.is_ancestor_of(q)]
                            refuses = bool(ifs) and any(z.k in ("ReturnStmt", "GotoStmt")
                                                        for z in [q for q in ifs[0].kids if q is not None][1].walk())
                            c = a.kids[2].strip()
                            bound = c.kids[1].strip().cv if c.k == "BinaryOperator" and c.op in ("<", "<=") else None
                            if c.k == "BinaryOperator" and c.op == "<=" and bound is not None:
                                bound += 1
                            inside = True
                            if idx.lstrip("-").isdigit() and bound is not None:
                                inside = 0 <= int(idx) < bound
                            if refuses and inside and dominates(f.cfg, c, n):
                                ok = True
                if ok:
                    break
                if not same:
                    continue
                if dominates(f.cfg, t, n):
                    ok = True
                    break
                for a in n.ancestors():
                    if a.k == "BinaryOperator" and a.op in ("&&", "||") and a.kids[0].is_ancestor_of(t) and a.kids[1].is_ancestor_of(n):
                        ok = True
                    if a.k == "ConditionalOperator" and a.kids[0].is_ancestor_of(t):
                        ok = True
                if ok:
                    break
            if not ok:
                # stored in the function itself
                for s in f.walk():
                    if s.k == "BinaryOperator" and s.op == "=":
                        sel = v.element_of(s.kids[0])
                        if sel is not None and sel[0] == member and sel[1] == idx and dominates(f.cfg, s, n) and \
                                not is_null(s.kids[1]):
                            ok = True
            anchor = "elem:%s[%s]" % (member, idx[:24])
            key = "R57|%s|%s|%s" % (f.file, f.name, anchor)
            if ok:
                R.ok(key, PROPS)
            elif anchor not in reported:
                reported.add(anchor)
                R.violated(Finding("R57", PROPS, f.file, f.name, anchor,
                                   "`%s` dereferences element [%s] of %s, whose slots are compared with NULL in %d functions (a slot the "
                                   "caller left unspecified is NULL), but no NULL test of this element dominates the use" %
                                   (n.text()[:60], idx, member, len(tests[member])), n.line))
    R.counts["element_dereferences"] = nsites
    if nsites < 3:
        raise AnalysisBroken("R57: only %d element dereferences found" % nsites)
    R.check_floor()
    return R

"""R58 MAPPED-EXTENT (C03, C11): an index taken from the port map stays inside the array it subscripts.

In _vnacal_new_add_common the caller's port map (1-based VNA port numbers) is validated by a loop of refusals of
the form `if (position < G && port > X) refuse` and is then used - directly, or through a sorted copy - to compute
indices `MAP[j] - 1` into local arrays whose extents are dimensions of the calibration (m_row_given[full_m_rows],
s_column_given[full_s_columns], ...).  For every such subscript the index must be below the extent E of the array:
  EXPLICIT  a refusal `index >= E` / `index > E - 1` (same extent expression, single-definition locals expanded)
            dominates the subscript; or
  VALIDATED the validation loop's guarantees imply it.  For the caller's map the value at position p is at most
            min{X : guard `p < G` applies}; a sorted (memcpy'd) copy only inherits the maximum of these over all
            positions, because sorting moves values between positions.  "Implies" is decided by evaluating loop bound,
            guards and extents - integer expressions over the S/M dimensions of the call and the calibration - for
            every combination of their free quantities in 1..3 (all rectangular shapes up to 3x3).
Only the mapped alternative of `cond ? MAP[j] - 1 : j` is judged (under its condition); the unmapped alternative is
the business of R13/R31.  A hole means: an accepted port map makes the subscript write outside the array.
"""
import itertools

from ..core import Finding, RuleResult
from ..facts import AnalysisBroken
from ..canon import Canon
from .r38_precision import atoms as _atoms, NotInt as _NotInt

PROPS = ("C03", "C11")
FILE = "vnacal_new_add_common.c"
FUNC = "_vnacal_new_add_common"


def dominates(cfg, a, b):
    pa, pb = cfg.pos_of(a), cfg.pos_of(b)
    if pa is None or pb is None:
        return False
    if pa[0] == pb[0]:
        return pa[1] <= pb[1]
    return cfg.block_dominates(pa[0], pb[0])


def run(P, tier="quick"):
    R = RuleResult("R58", "every subscript `A[MAP[j] - 1]` of a dimension-sized local array in _vnacal_new_add_common is below the "
                   "array's extent, by an explicit refusal or by the guarantees of the port-map validation loop", floor=4)
    fc = P.need_func(FUNC, FILE)
    cn = Canon(fc)
    top = 3 if tier == "quick" else 4

    def ev(e, env, depth=0):
        e = e.strip()
        if e.k == "IntegerLiteral":
            return e.val
        if e.k == "DeclRefExpr":
            if e.refkind == "enum":
                return e.ref["val"]
            sd = cn.single_def(e.refdecl) if (e.refkind == "local" and depth < 6) else None
            if sd is not None:
                return ev(sd, env, depth + 1)
            return env[("var", e.refdecl)]
        if e.k == "MemberExpr":
            return env[("mem", e.member)]
        if e.k == "UnaryOperator" and e.op == "!":
            return int(not ev(e.kids[0], env, depth))
        if e.k == "BinaryOperator":
            if e.op == "&&":
                return int(bool(ev(e.kids[0], env, depth)) and bool(ev(e.kids[1], env, depth)))
            if e.op == "||":
                return int(bool(ev(e.kids[0], env, depth)) or bool(ev(e.kids[1], env, depth)))
            a, b = ev(e.kids[0], env, depth), ev(e.kids[1], env, depth)
            return {"+": a + b, "-": a - b, "*": a * b, "<": int(a < b), "<=": int(a <= b), ">": int(a > b), ">=": int(a >= b),
                    "==": int(a == b), "!=": int(a != b)}[e.op]
        if e.k == "ConditionalOperator":
            return ev(e.kids[1], env, depth) if ev(e.kids[0], env, depth) else ev(e.kids[2], env, depth)
        raise _NotInt(e.text())

    # the maps
    caller_maps, copies = set(), set()
    for v in fc.vardecls():
        if v.kids and "vnaa_s_port_map" in cn.path(v.kids[0]):
            caller_maps.add(v.get("decl"))
    for c in fc.calls("memcpy"):
        a = c.args()
        if len(a) >= 2:
            srcs = [m for m in a[1].walk() if m.k == "DeclRefExpr" and m.refdecl in caller_maps]
            dsts = [m for m in a[0].walk() if m.k == "DeclRefExpr" and m.refkind == "local"]
            if srcs and dsts:
                copies.add(dsts[0].refdecl)
    if not caller_maps:
        raise AnalysisBroken("R58: the caller's port map (vnaa_s_port_map) is not read into a local")

    def map_of(node):
        node = node.strip()
        if node.k == "DeclRefExpr" and node.refdecl in caller_maps:
            return "caller"
        if node.k == "DeclRefExpr" and node.refdecl in copies:
            return "copy"
        return None

    # the validation loop: the loop over the caller's map whose body refuses (goto/return) on comparisons
    vloop = None
    for n in fc.walk():
        if n.k == "ForStmt" and n.kids[4] is not None and n.kids[2] is not None and \
                any(m.k == "ArraySubscriptExpr" and map_of(m.kids[0]) == "caller" for m in n.kids[4].walk()) and \
                sum(1 for m in n.kids[4].walk() if m.k == "IfStmt" and any(z.k in ("GotoStmt", "ReturnStmt") for z in m.walk())) >= 2:
            vloop = n
            break
    if vloop is None:
        raise AnalysisBroken("R58: port-map validation loop not found in %s" % FUNC)
    vcond = vloop.kids[2].strip()
    vivar = vcond.kids[0].strip()
    vbound = vcond.kids[1]
    guards = []     # (G expr or None, X expr)
    for n in vloop.kids[4].walk():
        if n.k != "IfStmt":
            continue
        kids = [x for x in n.kids if x is not None]
        if not any(m.k in ("GotoStmt", "ReturnStmt") for m in kids[1].walk()):
            continue
        c = kids[0].strip()
        if c.k == "BinaryOperator" and c.op == "&&":
            l, r = c.kids[0].strip(), c.kids[1].strip()
            if l.k == "BinaryOperator" and l.op == "<" and l.kids[0].strip().k == "DeclRefExpr" and \
                    l.kids[0].strip().refdecl == vivar.refdecl and r.k == "BinaryOperator" and r.op == ">":
                guards.append((l.kids[1], r.kids[1], l))     # `l` is evaluated on every pass: its position stands for the refusal
        elif c.k == "BinaryOperator" and c.op == ">" and c.kids[0].strip().k == "DeclRefExpr" and \
                c.kids[0].strip().refkind == "local" and (c.kids[0].strip().ctype or "") == "int" and c.kids[1].strip().cv is None:
            guards.append((None, c.kids[1], c))
    R.counts["validation_guards"] = len(guards)

    # VLA extents
    vla = {}
    for v in fc.vardecls():
        dims = v.d.get("_dims") or []
        if dims and hasattr(dims[0], "k") and dims[0].k != "ConstSize":
            vla[v.get("decl")] = (v.get("name"), dims[0])

    nsites = 0
    for s in fc.walk():
        if s.k != "ArraySubscriptExpr":
            continue
        b, i = s.kids[0].strip(), s.kids[1].strip()
        if b.k != "DeclRefExpr" or b.refdecl not in vla:
            continue
        ivar = None
        e = i
        if i.k == "DeclRefExpr" and i.refkind == "local":
            sd = cn.single_def(i.refdecl)
            if sd is None:
                continue
            ivar, e = i, sd.strip()
        cond = None
        if e.k == "ConditionalOperator":
            cond, e = e.kids[0], e.kids[1].strip()
        if e.k == "BinaryOperator" and e.op == "-" and e.kids[1].strip().cv == 1 and e.kids[0].strip().k == "DeclRefExpr" and \
                e.kids[0].strip().refkind == "local":
            # `port - 1` with `port = MAP[j]`
            sd0 = cn.single_def(e.kids[0].strip().refdecl)
            if sd0 is not None and sd0.strip().k == "ArraySubscriptExpr" and map_of(sd0.strip().kids[0]) is not None:
                ivar = ivar or e.kids[0].strip()
                import types
                e = types.SimpleNamespace(k="BinaryOperator", op="-", kids=[sd0, e.kids[1]], text=e.text)
        if not (e.k == "BinaryOperator" and e.op == "-" and e.kids[1].strip().cv == 1 and
                e.kids[0].strip().k == "ArraySubscriptExpr" and map_of(e.kids[0].strip().kids[0]) is not None):
            continue
        sub = e.kids[0].strip()
        kind = map_of(sub.kids[0])
        j = sub.kids[1].strip()
        # bound of j: enclosing counted loop
        B = None
        for a in s.ancestors():
            if a.k == "ForStmt" and a.kids[2] is not None:
                c = a.kids[2].strip()
                if c.k == "BinaryOperator" and c.op == "<" and c.kids[0].strip().k == "DeclRefExpr" and j.k == "DeclRefExpr" and \
                        c.kids[0].strip().refdecl == j.refdecl:
                    B = c.kids[1]
        if B is None:
            continue
        name, E = vla[b.refdecl]
        nsites += 1
        anchor = "mapped-extent:%s[%s<-%s]" % (name, (ivar.refname if ivar is not None else i.text()[:20]), j.text()[:16])
        key = "R58|%s|%s|%s" % (FILE, FUNC, anchor)
        # EXPLICIT
        explicit = False
        if ivar is not None and fc.cfg is not None:
            for t in fc.walk():
                if t.k == "BinaryOperator" and t.op in (">=", ">", "<", "<="):
                    x, y = t.kids[0].strip(), t.kids[1].strip()
                    op = t.op
                    if y.k == "DeclRefExpr" and y.refdecl == ivar.refdecl:
                        x, y, op = y, x, {"<": ">", ">": "<", "<=": ">=", ">=": "<="}[op]
                    if not (x.k == "DeclRefExpr" and x.refdecl == ivar.refdecl):
                        continue
                    ifs = [q for q in t.ancestors() if q.k == "IfStmt"]
                    if not ifs:
                        continue
                    kids = [q for q in ifs[0].kids if q is not None]
                    if not kids[0].is_ancestor_of(t) and kids[0].id != t.id:
                        continue
                    if not any(z.k in ("GotoStmt", "ReturnStmt") for z in kids[1].walk()):
                        continue
                    if op == ">=" and cn.path(y) == cn.path(E) and dominates(fc.cfg, t, s):
                        explicit = True
        if explicit:
            R.ok(key, PROPS)
            continue
        # VALIDATED: inside the validation loop itself only the refusals in front of the subscript count
        all_guards = guards
        if vloop.is_ancestor_of(s) and fc.cfg is not None:
            guards_here = [(g_, x_, c_) for (g_, x_, c_) in all_guards if dominates(fc.cfg, c_, s)]
        else:
            guards_here = all_guards
        at = {}
        for x in [B, E, vbound] + [g for g, _, _ in guards_here if g is not None] + [x_ for _, x_, _ in guards_here] + ([cond] if cond is not None else []):
            _atoms(x, cn, at)
        names = sorted(at, key=str)
        hole = None
        try:
            for vals in itertools.product(range(1, top + 1), repeat=len(names)):
                env = dict(zip(names, vals))
                # flags are 0/1
                for k_ in names:
                    if k_[0] == "mem" and "is_" in k_[1]:
                        env[k_] = env[k_] % 2
                if cond is not None and not ev(cond, env):
                    continue
                ext = ev(E, env)
                Bv = ev(B, env)
                VB = ev(vbound, env)

                def pos_bound(p):
                    xs = [ev(x_, env) for (g, x_, _) in guards_here if g is None or p < ev(g, env)]
                    return min(xs) if xs else None
                allb = [pos_bound(q) for q in range(VB)]
                for p in range(Bv):
                    if kind == "caller":
                        vb = pos_bound(p) if p < VB else None
                    else:
                        vb = None if (not allb or any(x is None for x in allb)) else max(allb)
                    if vb is None or vb > ext:
                        hole = (dict((at[k].text(), v) for k, v in env.items()), p, vb, ext)
                        break
                if hole:
                    break
        except (_NotInt, KeyError) as ex:
            R.unclassified(key, "extent or guard is not an integer expression of the dimensions: %s" % ex, PROPS)
            continue
        if hole is None:
            R.ok(key, PROPS)
        else:
            R.violated(Finding("R58", PROPS, FILE, FUNC, anchor,
                               "`%s` subscripts %s[%s] with `%s` taken from %s port map; the validation loop only guarantees a "
                               "port number of at most %s there while the array has %d elements when %s: an accepted port map "
                               "writes outside the array (no refusal `%s >= %s` in front)" %
                               (s.text()[:40], name, E.text()[:30], e.text()[:40],
                                "the caller's" if kind == "caller" else "the sorted copy of the caller's",
                                hole[2], hole[3], ", ".join("%s = %d" % kv for kv in sorted(hole[0].items())),
                                ivar.refname if ivar is not None else "index", E.text()[:30]), s.line))
    R.counts["mapped_subscripts"] = nsites
    if nsites < 4:
        raise AnalysisBroken("R58: only %d port-map subscripts of dimension-sized arrays found in %s (8 confirmed by hand)" % (nsites, FUNC))
    R.check_floor()
    return R

"""R59 OUTBUF-READ (C03, C18): a callee does not read an output buffer that reaches it uninitialised.

"never reads uninitialised ... memory" (C03); a result that depends on stack garbage is not deterministic (C18).
Instances: every local array (fixed or variable length, arithmetic element type) of a library function that is declared
without initialiser, is not wholly initialised in that function (memset / memcpy into it / a counted loop storing
A[i] / a call of a *whole writer*) before it is handed - as a plain pointer argument for a non-const parameter - to a
library function g.  For each such hand-over, g must not read elements of that parameter before it has wholly
initialised it itself:
  read    `p[i]` as an rvalue, `p` as the source of memcpy/memmove, or `p` passed on to a library function that reads
          it (same test, bounded depth);
  init    memset/memcpy/memmove with p as destination, a counted loop that stores p[<loop variable>], or a call passing
          p to a whole writer (a function that does one of these on that parameter on every path, e.g.
          _vnacal_new_solve_init_x_vector);
a read is safe when an init dominates it in g.  Writing slices (`&p[offset]` handed to a solver) is not an
initialisation of the whole buffer: a read over the full length after the first slice was written sees the other
slices as the caller left them.
"""
from ..core import Finding, RuleResult
from ..facts import AnalysisBroken

PROPS = ("C03", "C18")
ARITH = ("double", "float", "int", "_Complex double", "double _Complex", "long", "unsigned int", "size_t", "_Bool", "bool")
COPY = ("memcpy", "memmove")
DEPTH = 2


def dominates(cfg, a, b):
    pa, pb = cfg.pos_of(a), cfg.pos_of(b)
    if pa is None or pb is None:
        return False
    if pa[0] == pb[0]:
        return pa[1] <= pb[1]
    return cfg.block_dominates(pa[0], pb[0])


def is_ref(e, decl):
    e = e.strip()
    return e.k == "DeclRefExpr" and e.refdecl == decl


class Summ:
    def __init__(self, P):
        self.P = P
        self.ww = {}
        self.rb = {}

    def inits(self, g, decl):
        """nodes of g after which the buffer `decl` (param or local) counts as initialised: memset/memcpy into it, the
        buffer handed whole (not a slice `&p[k]`) to a non-const pointer parameter of any function (an output or in/out
        argument), or an element store - for a store inside loops also the condition of the outermost such loop, so
        that the code behind the loop is covered"""
        out = []
        for n in g.walk():
            if n.k == "CallExpr":
                a = n.args()
                if n.callee in ("memset", "bzero") + COPY:
                    if a and is_ref(a[0], decl):
                        out.append(n)
                    continue
                h = self.P.resolve_call(n, g)
                for i, x in enumerate(a):
                    if is_ref(x, decl):
                        if h is not None and i < len(h.params) and "const" in (h.params[i].get("t") or "").split("*")[0]:
                            continue
                        if h is not None and h.body is not None and i < len(h.params) and self.read_before_init(h, i) is not None:
                            continue        # that callee reads it first: not an initialisation
                        out.append(n)
            elif n.k == "BinaryOperator" and n.op == "=":
                l = n.kids[0].strip()
                b = l
                while b.k == "ArraySubscriptExpr":
                    b = b.kids[0].strip()
                if l.k == "ArraySubscriptExpr" and is_ref(b, decl):
                    out.append(n)
                    loops = [q for q in n.ancestors() if q.k in ("ForStmt", "WhileStmt") and q.kids[2 if q.k == "ForStmt" else 1] is not None]
                    if loops:
                        lp = loops[-1]
                        out.append(lp.kids[2 if lp.k == "ForStmt" else 1].strip())
        return out

    def whole_writer(self, h, idx, depth=0):
        k = (h.key(), idx)
        if k in self.ww:
            return self.ww[k]
        self.ww[k] = False
        if h.cfg is None or idx >= len(h.params) or depth > DEPTH:
            return False
        decl = h.params[idx]["decl"]
        ins = self.inits(h, decl)
        # on every path: an init dominates every return
        rets = h.returns()
        ok = bool(ins) and all(any(dominates(h.cfg, i, r) for i in ins) for r in rets) if rets else bool(ins)
        self.ww[k] = ok
        return ok

    def reads(self, g, decl):
        """(node, description) of reads of elements of the buffer"""
        out = []
        for n in g.walk():
            if n.k == "ArraySubscriptExpr" and is_ref(n.kids[0], decl) and "[" not in (n.ctype or ""):
                par = n.parent
                while par is not None and par.k in ("ParenExpr", "ImplicitCastExpr", "CStyleCastExpr"):
                    # an lvalue-to-rvalue conversion marks a read
                    if par.k == "ImplicitCastExpr" and (par.d.get("cast") or "") == "LValueToRValue":
                        break
                    par = par.parent
                if par is None:
                    continue
                if par.k == "ImplicitCastExpr":
                    out.append((n, "`%s` is read" % n.text()[:40]))
                elif par.k == "CompoundAssignOperator" and par.kids[0].strip().id == n.id:
                    out.append((n, "`%s` is updated in place" % par.text()[:40]))
            elif n.k == "CallExpr":
                a = n.args()
                if n.callee in COPY and len(a) >= 2 and is_ref(a[1], decl):
                    out.append((n, "it is the source of %s()" % n.callee))
        return out

    def read_before_init(self, g, idx, depth=0):
        """first (node, description) where g may read parameter idx before having initialised it, or None"""
        k = (g.key(), idx)
        if k in self.rb:
            return self.rb[k]
        self.rb[k] = None
        if g.cfg is None or idx >= len(g.params):
            return None
        decl = g.params[idx]["decl"]
        ins = self.inits(g, decl)
        res = None
        for (n, what) in self.reads(g, decl):
            if not any(dominates(g.cfg, i, n) for i in ins):
                res = (g, n, what)
                break
        if res is None and depth < DEPTH:
            for c in g.calls():
                if c.callee in COPY + ("memset", "bzero"):
                    continue
                h = self.P.resolve_call(c, g)
                if h is None or h.body is None:
                    continue
                for i, x in enumerate(c.args()):
                    if is_ref(x, decl) and i < len(h.params) and not any(dominates(g.cfg, j, c) for j in ins):
                        sub = self.read_before_init(h, i, depth + 1)
                        if sub is not None:
                            res = sub
                            break
                if res is not None:
                    break
        self.rb[k] = res
        return res


def run(P, tier="quick"):
    R = RuleResult("R59", "no library function reads elements of a buffer parameter before initialising it when some caller hands it "
                   "a local array that is still uninitialised", floor=3)
    S = Summ(P)
    nh = 0
    for f in P.lib_functions():
        if f.cfg is None:
            continue
        arrays = {}
        for v in f.vardecls():
            ct = (v.ctype or "")
            if "[" not in ct or v.kids and not (v.d.get("_dims")):
                continue
            if v.kids and any(k is not None and k.k in ("InitListExpr", "ImplicitValueInitExpr") for k in v.kids):
                continue
            elem = ct.split("[")[0].strip().replace("const ", "")
            if elem not in ARITH:
                continue
            arrays[v.get("decl")] = v.get("name")
        if not arrays:
            continue
        for c in f.calls():
            if c.callee in COPY + ("memset", "bzero"):
                continue
            g = P.resolve_call(c, f)
            if g is None or g.body is None:
                continue
            for i, a in enumerate(c.args()):
                a_s = a.strip()
                if a_s.k != "DeclRefExpr" or a_s.refdecl not in arrays or i >= len(g.params):
                    continue
                if "const" in (g.params[i].get("t") or "").split("*")[0]:
                    continue
                decl = a_s.refdecl
                # initialised in the caller before the call? (also: handed to an earlier callee as an output buffer)
                ins = S.inits(f, decl)
                if any(j.id != c.id and dominates(f.cfg, j, c) for j in ins):
                    continue
                earlier = False
                for c2 in f.calls():
                    if c2.id != c.id and c2.callee not in COPY + ("memset", "bzero") and \
                            any(is_ref(x, decl) for x in c2.args()) and dominates(f.cfg, c2, c):
                        earlier = True
                if earlier:
                    continue
                nh += 1
                anchor = "outbuf:%s->%s#%d" % (arrays[decl], g.name, i)
                key = "R59|%s|%s|%s" % (f.file, f.name, anchor)
                res = S.read_before_init(g, i)
                if res is None:
                    R.ok(key, PROPS)
                else:
                    h, n, what = res
                    R.violated(Finding("R59", PROPS, h.file, h.name, "read-uninit:%s" % h.params[i]["name"] if h is g else
                                       "read-uninit:%s" % n.text()[:20],
                                       "%s() hands the uninitialised local array %s (declared at line %d, not initialised before the "
                                       "call at line %d) to %s(); there %s (line %d) before the function has initialised the whole "
                                       "buffer: the value is whatever the caller's stack held" %
                                       (f.name, arrays[decl], [v for v in f.vardecls() if v.get("decl") == decl][0].line, c.line,
                                        g.name, what, n.line), n.line))
    R.counts["uninitialised_handovers"] = nh
    if nh < 3:
        raise AnalysisBroken("R59: only %d hand-overs of uninitialised local arrays to library functions found" % nh)
    R.check_floor()
    return R

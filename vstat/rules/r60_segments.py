"""R60 SEGMENT-COUNT (C10): the spline helpers agree with their callers on what `n` counts, for every small n.

"every user-supplied frequency-dependent quantity ... is interpolated through the given points" (C10).  The helpers
of vnacommon_spline.c take `n`, documented as the number of spline *segments*; every caller passes `<points> - 1`.
Roles are found by shape, not by name: the *calculator* is the function of the file that stores into its
`double (*)[3]` coefficient parameter, the *evaluator* the one that reads it and has a trailing `double x`.
Both start with a prologue of `if (<condition on n>) return ...;` statements; the rule evaluates those conditions
for n = 0..4 and checks, per n:
  CALLERS   every call passes an argument of the shape `E - 1` (so that n + 1 is the number of points);
  THROUGH   the evaluator may leave through a prologue return that does not depend on x and yields an element of the
            y vector only when there is a single point (n + 1 == 1): with two or more points a constant result
            ignores all points but one;
  COVER     whenever the calculator leaves through its prologue without having written coefficients, the evaluator
            must, for the same n, leave through its own prologue (it would otherwise read coefficients that were
            never computed).
"""
from ..core import Finding, RuleResult
from ..facts import AnalysisBroken

PROPS = ("C10",)
FILE = "vnacommon_spline.c"


class NotInt(Exception):
    pass


def ev(e, env):
    e = e.strip()
    if e.cv is not None:
        return e.cv
    if e.k == "DeclRefExpr":
        if e.refdecl in env:
            return env[e.refdecl]
        raise NotInt(e.text())
    if e.k == "UnaryOperator" and e.op == "!":
        return int(not ev(e.kids[0], env))
    if e.k == "UnaryOperator" and e.op == "-":
        return -ev(e.kids[0], env)
    if e.k == "BinaryOperator":
        if e.op == "&&":
            return int(bool(ev(e.kids[0], env)) and bool(ev(e.kids[1], env)))
        if e.op == "||":
            return int(bool(ev(e.kids[0], env)) or bool(ev(e.kids[1], env)))
        a, b = ev(e.kids[0], env), ev(e.kids[1], env)
        ops = {"+": a + b, "-": a - b, "*": a * b, "<": int(a < b), "<=": int(a <= b), ">": int(a > b), ">=": int(a >= b),
               "==": int(a == b), "!=": int(a != b)}
        if e.op in ops:
            return ops[e.op]
    raise NotInt(e.text())


def prologue_exit(f, ndecl, n):
    """the ReturnStmt through which f leaves in its prologue for this n, or None"""
    body = f.body
    for st in body.kids:
        if st is None or st.k in ("DeclStmt", "NullStmt"):
            continue
        if st.k != "IfStmt":
            return None
        kids = [z for z in st.kids if z is not None]
        try:
            c = ev(kids[0], {ndecl: n})
        except NotInt:
            return None
        if c:
            top = [z for z in (kids[1].kids if kids[1].k == "CompoundStmt" else [kids[1]]) if z is not None and z.k == "ReturnStmt"]
            return top[-1] if top else None
        if len(kids) > 2:
            return None
    return None


def run(P, tier="quick"):
    R = RuleResult("R60", "callers pass points-1 as the segment count; the spline evaluator returns an x-independent element of y only "
                   "for a single point; whenever the calculator skips the coefficients the evaluator does not read them (n = 0..4)",
                   floor=3)
    calc = evalf = None
    for f in P.by_file.get(FILE, []):
        if f.body is None:
            continue
        cps = [p for p in f.params if "[3]" in (p.get("t") or "") or "(*)[3]" in (p.get("ct") or "")]
        if not cps:
            continue
        cdecl = cps[0]["decl"]
        writes = any(m.k == "BinaryOperator" and m.op == "=" and any(x.k == "DeclRefExpr" and x.refdecl == cdecl for x in m.kids[0].walk())
                     for m in f.walk())
        if writes:
            calc = f
        elif f.params and (f.params[-1].get("t") or "") == "double":
            evalf = f
    if calc is None or evalf is None:
        raise AnalysisBroken("R60: spline calculator / evaluator not found in %s" % FILE)

    def nparam(f):
        ps = [p for p in f.params if (p.get("t") or "") == "int"]
        if not ps:
            raise AnalysisBroken("R60: %s has no int parameter" % f.name)
        return ps[0], f.params.index(ps[0])
    (cn_, ci), (en_, ei) = nparam(calc), nparam(evalf)
    # CALLERS
    ncall = 0
    for f in P.lib_functions():
        if f.body is None:
            continue
        for c in f.calls():
            if c.callee not in (calc.name, evalf.name) or f.file == FILE:
                continue
            idx = ci if c.callee == calc.name else ei
            a = c.args()[idx].strip()
            ncall += 1
            key = "R60|%s|%s|segments-arg:%s#%d" % (f.file, f.name, c.callee, c.line)
            if a.k == "BinaryOperator" and a.op == "-" and a.kids[1].strip().cv == 1:
                R.ok(key, PROPS)
            else:
                R.violated(Finding("R60", PROPS, f.file, f.name, "segments-arg:%s" % c.callee,
                                   "`%s` is passed as the segment count of %s(); every other caller passes <points> - 1" %
                                   (a.text()[:40], c.callee), c.line))
    R.counts["spline_calls"] = ncall
    if ncall < 4:
        raise AnalysisBroken("R60: only %d calls of the spline helpers found (6 confirmed by hand)" % ncall)
    xdecl = evalf.params[-1]["decl"]
    ydecls = {p["decl"] for p in evalf.params if "double *" in (p.get("t") or "") .replace("const ", "")}
    for n in range(0, 5):
        ce = prologue_exit(calc, cn_["decl"], n)
        ee = prologue_exit(evalf, en_["decl"], n)
        # THROUGH
        key = "R60|%s|%s|through:n=%d" % (FILE, evalf.name, n)
        if ee is not None and ee.kids:
            e = ee.kids[0]
            dep_x = any(x.k == "DeclRefExpr" and x.refdecl == xdecl for x in e.walk())
            from_y = any(x.k == "ArraySubscriptExpr" and x.kids[0].strip().k == "DeclRefExpr" and x.kids[0].strip().refdecl in ydecls
                         for x in e.walk())
            if from_y and not dep_x and n + 1 != 1:
                R.violated(Finding("R60", PROPS, FILE, evalf.name, "through:n=%d" % n,
                                   "for n = %d segments (%d points) %s() returns `%s` whatever x is: the second point is ignored, so a "
                                   "two-point noise or sigma table is not interpolated through its points" %
                                   (n, n + 1, evalf.name, e.text()[:30]), ee.line))
            else:
                R.ok(key, PROPS)
        else:
            R.ok(key, PROPS)
        # COVER
        key = "R60|%s|%s|cover:n=%d" % (FILE, calc.name, n)
        wrote = False
        if ce is not None:
            br = [a for a in ce.ancestors() if a.k == "IfStmt"][-1:]
            cdecl = [p_ for p_ in calc.params if "[3]" in (p_.get("t") or "") or "(*)[3]" in (p_.get("ct") or "")][0]["decl"]
            wrote = bool(br) and any(m.k == "BinaryOperator" and m.op == "=" and
                                     any(x.k == "DeclRefExpr" and x.refdecl == cdecl for x in m.kids[0].walk())
                                     for m in br[0].walk())
        if ce is not None and not wrote and ee is None:
            R.violated(Finding("R60", PROPS, FILE, calc.name, "cover:n=%d" % n,
                               "for n = %d %s() returns at line %d without computing coefficients, but %s() does not leave through its "
                               "prologue for that n and reads them" % (n, calc.name, ce.line, evalf.name), ce.line))
        else:
            R.ok(key, PROPS)
    R.check_floor()
    return R

"""R61 IGNORED-ARGUMENT REFUSAL (C10, C11): a call is not refused because of the contents of an argument the function ignores.

vnacal_new(3): "If frequencies is 1, then frequency_vector is not used and can be specified as NULL."  Whether an
optional vector argument is *used* is visible in the shape of the function: its elements are read (outside argument
checks) only under certain conditions on the other arguments.  The rule compares, for every optional pointer
parameter p (one the function compares with NULL) of every non-static library function,
  CHECK sites  `if (<condition reading p[...]>) { report VNAERR_USAGE / errno = EINVAL; return failure; }`
  USE sites    every other read of an element of p, and p handed to a callee,
under every *configuration* of the function's mode atoms: which optional pointers are NULL, and the values (0..3) of
the int parameters that the function compares with integer constants.  The guard of a site is the conjunction of
the conditions of the enclosing if/else branches, the entry condition of enclosing counted loops (for their constant
initial value) and the negations of the dominating leave-ifs (`if (c) return`) in front of it, evaluated in three-valued logic (conditions over anything else are "unknown").  A configuration in
which some CHECK site is not definitely unreachable while every USE site is definitely unreachable means: the call can
be refused for what p contains although nothing of p is ever used - the documented "not used" case is rejected.
"""
import itertools

from ..core import Finding, RuleResult
from ..facts import AnalysisBroken
from ..failflow import REPORTERS, FIXED_REPORTERS
from ..util import is_null

PROPS = ("C10", "C11")
INTS = ("int", "unsigned int", "size_t", "long")


def tv_not(a):
    return None if a is None else (not a)


def tv_and(a, b):
    if a is False or b is False:
        return False
    if a is None or b is None:
        return None
    return True


def tv_or(a, b):
    if a is True or b is True:
        return True
    if a is None or b is None:
        return None
    return False


class Ev:
    def __init__(self, ptrs, ints):
        self.ptrs, self.ints = ptrs, ints       # decl -> is NULL (bool); decl -> value

    def num(self, e):
        e = e.strip()
        if e.cv is not None:
            return e.cv
        if e.k == "DeclRefExpr" and e.refdecl in self.ints:
            return self.ints[e.refdecl]
        if e.k == "BinaryOperator" and e.op in ("+", "-", "*"):
            a, b = self.num(e.kids[0]), self.num(e.kids[1])
            if a is None or b is None:
                return None
            return {"+": a + b, "-": a - b, "*": a * b}[e.op]
        return None

    def cond(self, e):
        e = e.strip()
        if e.k == "UnaryOperator" and e.op == "!":
            return tv_not(self.cond(e.kids[0]))
        if e.k == "DeclRefExpr" and e.refdecl in self.ptrs:
            return not self.ptrs[e.refdecl]
        if e.k == "BinaryOperator":
            if e.op == "&&":
                return tv_and(self.cond(e.kids[0]), self.cond(e.kids[1]))
            if e.op == "||":
                return tv_or(self.cond(e.kids[0]), self.cond(e.kids[1]))
            if e.op in ("==", "!="):
                a, b = e.kids[0].strip(), e.kids[1].strip()
                for x, y in ((a, b), (b, a)):
                    if x.k == "DeclRefExpr" and x.refdecl in self.ptrs and is_null(y):
                        r = self.ptrs[x.refdecl]
                        return r if e.op == "==" else (not r)
            if e.op in ("==", "!=", "<", "<=", ">", ">="):
                a, b = self.num(e.kids[0]), self.num(e.kids[1])
                if a is None or b is None:
                    return None
                return {"==": a == b, "!=": a != b, "<": a < b, "<=": a <= b, ">": a > b, ">=": a >= b}[e.op]
        return None


def always_leaves(st):
    if st.k in ("ReturnStmt", "GotoStmt"):
        return True
    if st.k == "CompoundStmt":
        ks = [k for k in st.kids if k is not None]
        return bool(ks) and always_leaves(ks[-1])
    return False


def guard_of(site, f):
    """list of (condition node, polarity) that must hold for control to reach `site`"""
    out = []
    child = site
    for a in site.ancestors():
        if a.k == "IfStmt":
            kids = [z for z in a.kids if z is not None]
            if len(kids) >= 2 and (kids[1].id == child.id or kids[1].is_ancestor_of(child)):
                out.append((kids[0], True))
            elif len(kids) >= 3 and (kids[2].id == child.id or kids[2].is_ancestor_of(child)):
                out.append((kids[0], False))
        if a.k == "ForStmt" and a.kids[0] is not None and a.kids[2] is not None and a.kids[4] is not None and \
                (a.kids[4].id == child.id or a.kids[4].is_ancestor_of(child)):
            vds = [v for v in a.kids[0].walk() if v.k == "VarDecl" and v.kids and v.kids[0].strip().cv is not None]
            if len(vds) == 1:
                out.append((a.kids[2], ("first", vds[0].get("decl"), vds[0].kids[0].strip().cv)))
        if a.k == "CompoundStmt":
            for st in a.kids:
                if st is None:
                    continue
                if st.id == child.id or st.is_ancestor_of(child):
                    break
                if st.k == "IfStmt":
                    kids = [z for z in st.kids if z is not None]
                    if len(kids) == 2 and always_leaves(kids[1]):
                        out.append((kids[0], False))
        child = a
    return out


def run(P, tier="quick"):
    R = RuleResult("R61", "no configuration of (optional pointers NULL or not, small values of the int parameters compared with "
                   "constants) reaches an argument check on the elements of an optional vector while reaching none of its uses",
                   floor=3)
    nfun = 0
    for f in P.lib_functions():
        if f.body is None or f.static:
            continue
        pdecls = {p["decl"]: p["name"] for p in f.params if "*" in (p.get("t") or "")}
        optional = set()
        intatoms = set()
        idecls = {p["decl"]: p["name"] for p in f.params if (p.get("t") or "").replace("const ", "") in INTS}
        for n in f.walk():
            if n.k == "BinaryOperator" and n.op in ("==", "!="):
                a, b = n.kids[0].strip(), n.kids[1].strip()
                for x, y in ((a, b), (b, a)):
                    if x.k == "DeclRefExpr" and x.refdecl in pdecls and is_null(y):
                        optional.add(x.refdecl)
            if n.k == "BinaryOperator" and n.op in ("==", "!=", "<", "<=", ">", ">="):
                a, b = n.kids[0].strip(), n.kids[1].strip()
                for x, y in ((a, b), (b, a)):
                    if x.k == "DeclRefExpr" and x.refdecl in idecls and y.cv is not None:
                        intatoms.add(x.refdecl)
        if not optional:
            continue
        for p in sorted(optional):
            checks, uses = [], []
            for n in f.walk():
                isread = False
                if n.k == "ArraySubscriptExpr" and n.kids[0].strip().k == "DeclRefExpr" and n.kids[0].strip().refdecl == p:
                    isread = True
                elif n.k == "UnaryOperator" and n.op == "*" and n.kids[0].strip().k == "DeclRefExpr" and n.kids[0].strip().refdecl == p:
                    isread = True
                elif n.k == "CallExpr" and n.callee not in REPORTERS and n.callee not in FIXED_REPORTERS and \
                        any(a.strip().k == "DeclRefExpr" and a.strip().refdecl == p for a in n.args()):
                    uses.append(n)
                    continue
                if not isread:
                    continue
                # inside a reporter's arguments: wording of a message
                if any(a.k == "CallExpr" and (a.callee in REPORTERS or a.callee in FIXED_REPORTERS) for a in n.ancestors()):
                    continue
                chk = None
                for a in n.ancestors():
                    if a.k == "IfStmt":
                        kids = [z for z in a.kids if z is not None]
                        if kids[0].id == n.id or kids[0].is_ancestor_of(n):
                            refuses = any((c.k == "CallExpr" and ((c.callee in REPORTERS and len(c.args()) > REPORTERS[c.callee] and
                                                                 c.args()[REPORTERS[c.callee]].strip().refname == "VNAERR_USAGE") or
                                                                FIXED_REPORTERS.get(c.callee) == "VNAERR_USAGE")) or
                                          (c.k == "BinaryOperator" and c.op == "=" and "__errno_location" in c.kids[0].text() and
                                           c.kids[1].strip().cv == 22)
                                          for c in kids[1].walk())
                            if refuses and always_leaves(kids[1]):
                                chk = a
                            break
                if chk is not None:
                    if not any(c.id == chk.id for c in checks):
                        checks.append(chk)
                else:
                    uses.append(n)
            if not checks or not uses:
                continue
            nfun += 1
            others = sorted(optional)
            atoms_i = sorted(intatoms)
            bad = None
            for nulls in itertools.product((False, True), repeat=len(others)):
                ptrs = dict(zip(others, nulls))
                if ptrs[p]:
                    continue            # p is NULL: nothing of it can be checked
                for vals in itertools.product(range(0, 4), repeat=len(atoms_i)):
                    E = Ev(ptrs, dict(zip(atoms_i, vals)))

                    def reach(site):
                        r = True
                        for (c, pol) in guard_of(site, f):
                            if isinstance(pol, tuple):
                                # body of a counted loop: entered only if the condition holds for the initial value
                                E.ints[pol[1]] = pol[2]
                                v = E.cond(c)
                                del E.ints[pol[1]]
                                r = tv_and(r, v)
                                continue
                            v = E.cond(c)
                            r = tv_and(r, v if pol else tv_not(v))
                        return r
                    ck = [c for c in checks if reach(c) is not False]
                    if ck and all(reach(u) is False for u in uses):
                        bad = (ck[0], ptrs, dict(zip(atoms_i, vals)))
                        break
                if bad:
                    break
            anchor = "ignored-arg:%s" % pdecls[p]
            key = "R61|%s|%s|%s" % (f.file, f.name, anchor)
            if bad is None:
                R.ok(key, PROPS)
            else:
                ck, ptrs, ints = bad
                cfg = ", ".join(["%s %s NULL" % (pdecls[d], "==" if v else "!=") for d, v in sorted(ptrs.items())] +
                                ["%s = %d" % (idecls[d], v) for d, v in sorted(ints.items())])
                R.violated(Finding("R61", PROPS, f.file, f.name, anchor,
                                   "with %s no element of %s is used (all %d uses are unreachable), yet the argument check at line %d "
                                   "(`%s`) can still refuse the call for what %s contains" %
                                   (cfg, pdecls[p], len(uses), ck.line, [z for z in ck.kids if z is not None][0].text()[:60], pdecls[p]),
                                   ck.line))
    R.counts["functions_with_checked_optional_vectors"] = nfun
    if nfun < 3:
        raise AnalysisBroken("R61: only %d functions with an optional vector that is both checked and used" % nfun)
    R.check_floor()
    return R

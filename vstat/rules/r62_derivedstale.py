"""R62 DERIVED-STALE (C10): a vector computed from another vector of the object does not survive a change of its source unnoticed.

"noise vectors are interpolated onto the calibration grid" (C10): vn_m_error_vector[i] is computed from
vn_frequency_vector[i].  The dependence is read off the code: a member vector D is *derived from* a member vector S
of the same structure when some function stores into an element of D (`X->D[i]` / `X->D[i].f`, directly or through a
local alias of X->D) a value whose expression reads an element of X->S.  Every other function that overwrites the
elements of S (memcpy into X->S, or a store to X->S[i]) must then take notice of D: mention it at all - re-compute it,
free or reset it, or test it to refuse the change.  A writer of S that never looks at D leaves D describing the old
S: the same calls in a different order give a different calibration.
Constructors/destructors (functions that allocate or free S) take no part, nor do internal functions (static, or
named with a leading underscore): only public calls can be issued by the user in another order.
"""
from ..core import Finding, RuleResult
from ..facts import AnalysisBroken
from ..canon import Canon

PROPS = ("C10",)
COPY = ("memcpy", "memmove")
ALLOCS = ("malloc", "calloc", "realloc", "free")


def member_vec(e, cn, depth=0):
    """e denotes the vector member X->M (directly or via a single-definition local alias): member name"""
    e = e.strip()
    if e.k == "MemberExpr" and "*" in (e.ctype or ""):
        return e.member
    if e.k == "DeclRefExpr" and e.refkind == "local" and depth < 3:
        d = cn.single_def(e.refdecl)
        if d is not None:
            return member_vec(d, cn, depth + 1)
        # a vector built aside and installed later: `X->M = local`
        for n in cn.fn.walk():
            if n.k == "BinaryOperator" and n.op == "=" and n.kids[1].strip().k == "DeclRefExpr" and \
                    n.kids[1].strip().refdecl == e.refdecl and n.kids[0].strip().k == "MemberExpr" and \
                    "*" in (n.kids[0].strip().ctype or ""):
                return n.kids[0].strip().member
    return None


def elem_of(e, cn):
    """e is X->M[i] or X->M[i].f...: member name"""
    e = e.strip()
    while e.k == "MemberExpr" and not e.get("arrow"):
        e = e.kids[0].strip()
    if e.k == "ArraySubscriptExpr":
        return member_vec(e.kids[0], cn)
    return None


def run(P, tier="quick"):
    R = RuleResult("R62", "every function that overwrites the elements of a member vector S mentions every member vector derived "
                   "from S (element stores whose value reads S's elements)", floor=1)
    funcs = [f for f in P.lib_functions() if f.body is not None]
    derived = {}        # (D, S) -> deriving function
    writers = {}        # S -> [(f, node)]
    mentions = {}       # f.key -> set(member names)
    lifecycle = {}      # S -> set of f.key that allocate/free it
    for f in funcs:
        cn = Canon(f)
        ms = set()
        for n in f.walk():
            if n.k == "MemberExpr":
                ms.add(n.member)
        mentions[f.key()] = ms
        for n in f.walk():
            if n.k == "BinaryOperator" and n.op == "=":
                D = elem_of(n.kids[0], cn)
                if D is not None:
                    writers.setdefault(D, []).append((f, n))
                    for r in n.kids[1].walk():
                        if r.k == "ArraySubscriptExpr":
                            S = member_vec(r.kids[0], cn)
                            if S is not None and S != D:
                                derived.setdefault((D, S), f)
                l = n.kids[0].strip()
                if l.k == "MemberExpr" and "*" in (l.ctype or "") and n.kids[1].strip().k == "CallExpr" and \
                        n.kids[1].strip().callee in ALLOCS:
                    lifecycle.setdefault(l.member, set()).add(f.key())
            if n.k == "CallExpr" and n.callee in COPY and n.args():
                S = member_vec(n.args()[0], cn)
                if S is not None:
                    writers.setdefault(S, []).append((f, n))
            if n.k == "CallExpr" and n.callee == "free" and n.args():
                S = member_vec(n.args()[0], cn)
                if S is not None:
                    lifecycle.setdefault(S, set()).add(f.key())
    R.counts["derived_pairs"] = len(derived)
    if not derived:
        raise AnalysisBroken("R62: no derived member vector found (vn_m_error_vector is computed from vn_frequency_vector)")
    npairs = 0
    for (D, S), fd in sorted(derived.items()):
        seen = set()
        for (f, n) in writers.get(S, []):
            if f.key() == fd.key() or f.key() in seen or f.key() in lifecycle.get(S, ()):
                continue
            if f.static or f.name.startswith("_"):
                continue        # only calls of the public API can be issued in a different order by the user
            seen.add(f.key())
            npairs += 1
            anchor = "derived:%s<-%s" % (D, S)
            key = "R62|%s|%s|%s" % (f.file, f.name, anchor)
            if D in mentions[f.key()]:
                R.ok(key, PROPS)
            else:
                R.violated(Finding("R62", PROPS, f.file, f.name, anchor,
                                   "%s() overwrites %s (line %d) but never looks at %s, whose elements %s() computes from the elements "
                                   "of %s: after this call %s still describes the old %s" %
                                   (f.name, S, n.line, D, fd.name, S, D, S), n.line))
    R.counts["source_writers"] = npairs
    if npairs < 1:
        raise AnalysisBroken("R62: no writer of a source vector outside its deriving function found")
    R.check_floor()
    return R

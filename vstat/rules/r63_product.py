"""R63 PRODUCT-OVERFLOW (C03, C09): the product of two caller-supplied dimensions that sizes an allocation cannot wrap.

`int new_cells = rows * columns` with rows = columns = 65536 wraps to 0: the allocation that follows is "large enough"
for nothing, the matrices stay NULL and the first cell access faults (a Touchstone file saying
`[Number of Ports] 65536` does it).  Instances: every multiplication of type int in a non-static library function
whose two operands are both *unbounded inputs* - int parameters of the function (directly or through
single-definition locals) that no refusal in front of the multiplication bounds from above - and whose value reaches the
size argument of malloc/calloc/realloc, in the function itself or through an argument of a library callee (the callee's
parameter occurs in an allocator's size expression; depth 2).  An upper bound is a dominating refusal
(`if (...) return/goto`) whose condition compares one of the operands with `>`/`>=` against anything (a constant limit
or the overflow test `columns > INT_MAX / rows`).
"""
from ..core import Finding, RuleResult
from ..facts import AnalysisBroken
from ..canon import Canon

PROPS = ("C03", "C09")
ALLOCS = ("malloc", "calloc", "realloc")
INTT = ("int",)


def dominates(cfg, a, b):
    pa, pb = cfg.pos_of(a), cfg.pos_of(b)
    if pa is None or pb is None:
        return False
    if pa[0] == pb[0]:
        return pa[1] <= pb[1]
    return cfg.block_dominates(pa[0], pb[0])


def size_params(P, g, memo, depth=0):
    """indices of g's parameters that occur in the size expression of an allocator call (directly or through a callee)"""
    k = g.key()
    if k in memo:
        return memo[k]
    memo[k] = set()
    out = set()
    if g.body is None:
        return out
    pidx = {p["decl"]: i for i, p in enumerate(g.params)}
    cn = Canon(g)

    def params_in(e, d=0):
        r = set()
        for m in e.walk():
            if m.k == "DeclRefExpr":
                if m.refdecl in pidx:
                    r.add(pidx[m.refdecl])
                elif m.refkind == "local" and d < 3:
                    for kind, rhs in cn.defs.get(m.refdecl, []):
                        if rhs is not None:
                            r |= params_in(rhs, d + 1)
        return r
    for c in g.calls():
        if c.callee in ALLOCS:
            for a in c.args()[(1 if c.callee == "realloc" else 0):]:
                out |= params_in(a)
        elif depth < 2:
            h = P.resolve_call(c, g)
            if h is not None and h.body is not None:
                sp = size_params(P, h, memo, depth + 1)
                for i, a in enumerate(c.args()):
                    if i in sp:
                        out |= params_in(a)
    memo[k] = out
    return out


def run(P, tier="quick"):
    R = RuleResult("R63", "every int product of two caller-supplied dimensions that reaches an allocation size is preceded by a "
                   "refusal bounding one of them from above (or the overflow test)", floor=1)
    memo = {}
    nprod = 0
    for f in P.lib_functions():
        if f.cfg is None or f.static:
            continue
        iparams = {p["decl"]: p["name"] for p in f.params if (p.get("ct") or p.get("t") or "").replace("const ", "") in INTT}
        if len(iparams) < 2:
            continue
        cn = Canon(f)

        def src(e):
            e = e.strip()
            if e.k == "DeclRefExpr":
                if e.refdecl in iparams:
                    return e.refdecl
                if e.refkind == "local":
                    d = cn.single_def(e.refdecl)
                    if d is not None:
                        return src(d)
            return None
        for m in f.walk():
            if m.k != "BinaryOperator" or m.op != "*" or (m.ctype or "") not in INTT:
                continue
            a, b = src(m.kids[0]), src(m.kids[1])
            if a is None or b is None:
                continue
            # does the product reach an allocation size?
            holder = None
            par = m.parent
            while par is not None and par.k in ("ParenExpr", "ImplicitCastExpr"):
                par = par.parent
            reaches = False
            if par is not None and par.k == "BinaryOperator" and par.op == "=" and par.kids[0].strip().k == "DeclRefExpr":
                holder = par.kids[0].strip().refdecl
            elif par is not None and par.k == "VarDecl":
                holder = par.get("decl")
            for c in f.calls():
                args = c.args()
                for i, x in enumerate(args):
                    uses = any(y.id == m.id for y in x.walk()) or \
                        (holder is not None and any(y.k == "DeclRefExpr" and y.refdecl == holder for y in x.walk()))
                    if not uses:
                        continue
                    if c.callee in ALLOCS:
                        reaches = True
                    else:
                        h = P.resolve_call(c, f)
                        if h is not None and h.body is not None and i in size_params(P, h, memo):
                            reaches = True
            if not reaches:
                continue
            nprod += 1
            anchor = "product:%s*%s" % (iparams[a], iparams[b])
            key = "R63|%s|%s|%s" % (f.file, f.name, anchor)
            bounded = False
            for s in f.walk():
                if s.k != "IfStmt":
                    continue
                kids = [z for z in s.kids if z is not None]
                if len(kids) < 2 or not any(z.k in ("ReturnStmt", "GotoStmt") for z in kids[1].walk()):
                    continue
                for t in kids[0].walk():
                    if t.k == "BinaryOperator" and t.op in (">", ">=", "<", "<="):
                        x, y = t.kids[0].strip(), t.kids[1].strip()
                        up = None
                        if t.op in (">", ">=") and src(x) in (a, b):
                            up = y
                        if t.op in ("<", "<=") and src(y) in (a, b):
                            up = x
                        if up is not None and not (up.cv is not None and up.cv <= 0) and dominates(f.cfg, t, m):
                            bounded = True
                # a checker callee that refuses: `if (validate(.., rows, columns, ..) == -1) return -1` with the bound inside
                c0 = kids[0].strip()
                if c0.k == "BinaryOperator" and c0.op == "==" and c0.kids[0].strip().k == "CallExpr" and c0.kids[1].strip().cv == -1 and \
                        dominates(f.cfg, c0, m):
                    call = c0.kids[0].strip()
                    h = P.resolve_call(call, f)
                    if h is not None and h.body is not None:
                        hp = {p["decl"]: i for i, p in enumerate(h.params)}
                        passed = {i for i, x in enumerate(call.args()) if src(x) in (a, b)}
                        for t in h.walk():
                            if t.k == "BinaryOperator" and t.op in (">", ">="):
                                x = t.kids[0].strip()
                                if x.k == "DeclRefExpr" and hp.get(x.refdecl) in passed and \
                                        not (t.kids[1].strip().cv is not None and t.kids[1].strip().cv <= 0):
                                    ifs = [q for q in t.ancestors() if q.k == "IfStmt"]
                                    if ifs and any(z.k == "ReturnStmt" for z in ifs[0].walk()):
                                        bounded = True
            if bounded:
                R.ok(key, PROPS)
            else:
                R.violated(Finding("R63", PROPS, f.file, f.name, anchor,
                                   "`%s` multiplies two int parameters that no refusal bounds from above and its value sizes an "
                                   "allocation: %s = %s = 65536 wraps to 0, nothing is allocated and the first cell access faults" %
                                   (m.text()[:40], iparams[a], iparams[b]), m.line))
    R.counts["dimension_products"] = nprod
    if nprod < 1:
        raise AnalysisBroken("R63: no product of two int parameters reaching an allocation found (vnadata_resize: rows * columns)")
    R.check_floor()
    return R

"""R64 LOADER-ERRCLASS (C09, C11): a value read from a file does not reach an API setter's *usage* refusal unchecked.

"... the loader ... fails with -1/NULL and errno set to EBADMSG, ENOPROTOOPT or a system error" (C09); EINVAL is the
class of the caller's own usage errors (C11).  The loaders store what they parse through the public setters
(vnadata_add_frequency, vnadata_init, ...).  Some of those refuse a *value* with VNAERR_USAGE -> EINVAL
(`frequency < 0`, `rows != 0 && columns > INT_MAX / rows`).  If the loader hands such a setter a value from the file
without having refused the offending range itself (VNAERR_SYNTAX, with file name and line), a malformed file is
reported as a usage error of the application: wrong errno class, no file/line, and - where the loader then adds its
own message for what it takes to be a system failure - two reports.
Instances: every call from a loader file to a library function outside that file whose top-level argument checks
(in the callee or in a static checker it calls first) refuse, with VNAERR_USAGE, a relational condition over its
scalar value parameters.  For each such condition and each parameter in it, the argument expression at the call must
be *bounded in the same direction* by the loader: a leave-if (`if (c) { ...; return/goto }`) somewhere in the loader
file whose condition compares the same variable/member (same spelling after stripping casts) with `<`/`<=` (for a
lower-bound refusal) or `>`/`>=` (for an upper-bound refusal); or the argument is a loop counter / constant; or it is
an int filled by a scanner helper that itself refuses the range.  Object-validity checks (NULL, magic) and index
range checks against the object's own extents take no part.
"""
from ..core import Finding, RuleResult
from ..facts import AnalysisBroken
from ..failflow import REPORTERS
from ..canon import Canon

PROPS = ("C09", "C11")
FILES = ("vnadata_load_touchstone.c", "vnadata_load_npd.c", "vnacal_load.c")
SCALAR = ("int", "double", "long", "unsigned int", "size_t", "float")


def usage_conditions(P, g, depth=0):
    """[(condition node, owner function, {owner param decl -> g param index})]"""
    out = []
    if g.body is None:
        return out
    ident = {p["decl"]: i for i, p in enumerate(g.params)}
    for st in g.body.kids:
        if st is None:
            continue
        if st.k == "IfStmt":
            kids = [z for z in st.kids if z is not None]
            c0 = kids[0].strip()
            # a checker called first: if (validate(function, vdp, type, rows, ...) == -1) return -1;
            if depth < 1 and c0.k == "BinaryOperator" and c0.op == "==" and c0.kids[0].strip().k == "CallExpr" and \
                    c0.kids[1].strip().cv == -1:
                call = c0.kids[0].strip()
                h = P.resolve_call(call, g)
                if h is not None and h.body is not None and h.static:
                    amap = {}
                    for i, a in enumerate(call.args()):
                        a = a.strip()
                        if a.k == "DeclRefExpr" and a.refdecl in ident and i < len(h.params):
                            amap[h.params[i]["decl"]] = ident[a.refdecl]
                    for (cond, owner, m) in usage_conditions(P, h, depth + 1):
                        out.append((cond, owner, {d: amap[d] for d in m if d in amap}))
                continue
            reports = any(c.k == "CallExpr" and c.callee in REPORTERS and len(c.args()) > REPORTERS[c.callee] and
                          c.args()[REPORTERS[c.callee]].strip().refname == "VNAERR_USAGE" for c in kids[1].walk())
            leaves = any(z.k == "ReturnStmt" for z in kids[1].walk())
            if reports and leaves:
                out.append((kids[0], g, dict(ident)))
    return out


def is_limit(e, positive=False):
    e = e.strip()
    while e.k == "UnaryOperator" and e.op in ("-", "+"):
        e = e.kids[0].strip()
    if positive and e.cv is not None and e.cv <= 0:
        return False
    if e.k in ("IntegerLiteral", "FloatingLiteral") or e.cv is not None:
        return True
    if e.k == "BinaryOperator" and e.op == "/" and e.kids[0].strip().cv is not None and e.kids[0].strip().cv >= 32767:
        return True
    return False


def spelled(e):
    e = e.strip()
    return e.text().replace(" ", "")


def run(P, tier="quick"):
    R = RuleResult("R64", "every file value handed to an API setter that refuses a value range with VNAERR_USAGE has been refused for "
                   "that range by the loader itself", floor=2)
    nsites = 0
    for file in FILES:
        fns = [f for f in P.by_file.get(file, []) if f.body is not None]
        # all leave-if comparisons of the file: spelled operand -> set of directions
        bounds = {}
        for f in fns:
            for s in f.walk():
                if s.k != "IfStmt":
                    continue
                kids = [z for z in s.kids if z is not None]
                if len(kids) < 2 or not any(z.k in ("ReturnStmt", "GotoStmt") for z in kids[1].walk()):
                    continue
                for t in kids[0].walk():
                    if t.k == "BinaryOperator" and t.op in ("<", "<=", ">", ">="):
                        a, b = t.kids[0].strip(), t.kids[1].strip()
                        lowdir = t.op in ("<", "<=")
                        neg = sum(1 for q in t.ancestors() if q.k == "UnaryOperator" and q.op == "!" and
                                  (kids[0].id == q.id or kids[0].is_ancestor_of(q)))
                        if neg % 2:
                            lowdir = not lowdir     # if (!(x >= 0)) refuse  ==  if (x < 0 or NaN) refuse
                        # a bound is a comparison with a literal limit (or a limit computed from INT_MAX), not with
                        # another value of the file (`f <= previous f` says nothing about the first f)
                        if is_limit(b, positive=not lowdir):
                            bounds.setdefault(spelled(a), set()).add("low" if lowdir else "high")
                        if is_limit(a, positive=lowdir):
                            bounds.setdefault(spelled(b), set()).add("high" if lowdir else "low")
        for f in fns:
            cn = Canon(f)
            for c in f.calls():
                g = P.resolve_call(c, f)
                if g is None or g.body is None or g.file == file:
                    continue
                conds = usage_conditions(P, g)
                for (cond, owner, pmap) in conds:
                    # relational sub-conditions over scalar value parameters
                    for t in cond.walk():
                        if t.k != "BinaryOperator" or t.op not in ("<", "<=", ">", ">="):
                            continue
                        for side, other, lowdir in ((t.kids[0], t.kids[1], t.op in ("<", "<=")),
                                                    (t.kids[1], t.kids[0], t.op in (">", ">="))):
                            x = side.strip()
                            if x.k != "DeclRefExpr" or x.refdecl not in pmap:
                                continue
                            ptype = [p for p in owner.params if p["decl"] == x.refdecl][0]
                            if (ptype.get("ct") or ptype.get("t") or "").replace("const ", "") not in SCALAR:
                                continue
                            # comparisons against the object's own extents are index checks, not value checks
                            if any(m.k == "MemberExpr" for m in other.walk()):
                                continue
                            gi = pmap[x.refdecl]
                            if gi >= len(c.args()):
                                continue
                            arg = c.args()[gi].strip()
                            if arg.cv is not None:
                                continue
                            need = "low" if lowdir else "high"
                            if need == "low" and "double" not in (ptype.get("ct") or ptype.get("t") or ""):
                                continue        # counts come from scanners of non-negative integers
                            nsites += 1
                            anchor = "errclass:%s#%s:%s" % (c.callee, g.params[gi]["name"], need)
                            key = "R64|%s|%s|%s" % (file, f.name, anchor)
                            # candidates: the argument itself, and the variables / members it is built from
                            cands = {spelled(arg)}
                            def built_from(e, depth=0):
                                for m in e.walk():
                                    if m.k in ("DeclRefExpr", "MemberExpr", "ArraySubscriptExpr") and \
                                            (m.ctype or "").replace("const ", "") in SCALAR:
                                        cands.add(spelled(m))
                                        if m.k == "DeclRefExpr" and m.refkind == "local" and depth < 3:
                                            for kind, rhs in cn.defs.get(m.refdecl, []):
                                                if rhs is not None:
                                                    cands.add(spelled(rhs))
                                                    built_from(rhs, depth + 1)
                            built_from(arg)
                            # members are spelled with different bases in different functions: compare by member name as well
                            mems = {m.member for m in arg.walk() if m.k == "MemberExpr"}
                            ok = any(need in bounds.get(s_, ()) for s_ in cands)
                            if not ok and mems:
                                ok = any(need in dirs for s_, dirs in bounds.items() if any(s_.endswith("->" + mm) or s_.endswith("." + mm)
                                                                                            for mm in mems))
                            # loop counters
                            if not ok and arg.k == "DeclRefExpr":
                                for a in c.ancestors():
                                    if a.k == "ForStmt" and a.kids[2] is not None and \
                                            any(q.k == "DeclRefExpr" and q.refdecl == arg.refdecl for q in a.kids[2].walk()):
                                        ok = True
                            if ok:
                                R.ok(key, PROPS)
                            else:
                                R.violated(Finding("R64", PROPS, file, f.name, anchor,
                                                   "`%s` passes the file value `%s` to %s(), which refuses `%s` with VNAERR_USAGE (errno "
                                                   "EINVAL, no file name or line); the loader has no refusal bounding that value from %s: a "
                                                   "malformed file is reported as a usage error of the application" %
                                                   (c.text()[:50], arg.text()[:40], c.callee, t.text()[:50],
                                                    "below" if need == "low" else "above"), c.line))
    R.counts["value_refusal_sites"] = nsites
    if nsites < 2:
        raise AnalysisBroken("R64: only %d loader calls to setters with value refusals found (vnadata_add_frequency: frequency < 0)" % nsites)
    R.check_floor()
    return R

"""R65 ERRNO-CLOBBER (C12, C11): after a failed allocation, errno is not overwritten with another class before the failure return.

"... a failed allocation gives the documented failure value and errno ENOMEM" (C12).  malloc/calloc/realloc/strdup set
errno to ENOMEM when they fail.  Path-sensitive, for every library function: once the NULL edge of an allocator call
has been taken, an unconditional store `errno = <constant other than ENOMEM>` on the way to a failure return replaces
the system error by a different class (a common `error:` label that sets EINVAL for the syntax errors it was written
for).  The guarded idiom `if (errno == 0) errno = E;` and stores of ENOMEM are accepted; a store after a *successful*
later call is not the allocation's path any more only if the function has left - so every store on the path counts.
"""
from ..core import Finding, RuleResult
from ..facts import AnalysisBroken
from ..flow import Engine, Tracker, TooManyStates
from ..util import is_null

PROPS = ("C12", "C11")
ALLOCS = ("malloc", "calloc", "realloc", "strdup", "strndup")
ENOMEM = 12


class ClobberTracker(Tracker):
    def __init__(self, fn):
        self.fn = fn
        self.bad = {}
        self.nfail = 0

    def initial(self, fn):
        return 0                    # id of the failed allocator call, 0 = none

    def step(self, st, n, ctx):
        if st and n.k == "BinaryOperator" and n.op == "=":
            l = n.kids[0].strip()
            if l.k == "UnaryOperator" and l.op == "*" and l.kids[0].strip().k == "CallExpr" and \
                    l.kids[0].strip().callee == "__errno_location":
                v = n.kids[1].strip().cv
                if v is not None and v != ENOMEM:
                    guarded = False
                    for a in n.ancestors():
                        if a.k == "IfStmt":
                            c0 = [x for x in a.kids if x is not None][0]
                            if "__errno_location" in c0.text():
                                guarded = True
                            break
                    if not guarded:
                        self.bad.setdefault(n.id, (n, self.fn.by_id.get(st), ctx.trace()))
        return [st]

    def branch(self, st, cond, truth, ctx):
        c = cond.strip()
        while c.k == "UnaryOperator" and c.op == "!":
            truth = not truth
            c = c.kids[0].strip()
        if c.k == "BinaryOperator" and c.op in ("==", "!="):
            a, b = c.kids[0].strip(), c.kids[1].strip()
            while a.k == "BinaryOperator" and a.op == "=":    # also `p = q = calloc(..)`
                a = a.kids[1].strip()
            while a.k in ("CStyleCastExpr", "ParenExpr"):
                a = a.kids[0].strip()
            if a.k == "CallExpr" and a.callee in ALLOCS and is_null(b):
                if (c.op == "==") == truth:
                    self.nfail += 1
                    return a.id
        return st


def run(P, tier="quick"):
    R = RuleResult("R65", "on no path does an unconditional `errno = <not ENOMEM>` follow the NULL edge of an allocator call", floor=20)
    nf = 0
    for f in P.lib_functions():
        if f.cfg is None or not any(c.callee in ALLOCS for c in f.calls()):
            continue
        tr = ClobberTracker(f)
        key = "R65|%s|%s|errno-after-alloc-failure" % (f.file, f.name)
        try:
            Engine(f, tr, 200000).run()
        except TooManyStates:
            R.unclassified(key, "too many states", PROPS)
            continue
        if tr.nfail == 0:
            continue
        nf += 1
        if not tr.bad:
            R.ok(key, PROPS)
        seen = set()
        for nid, (n, call, trace) in sorted(tr.bad.items()):
            anchor = "clobber:errno=%s" % n.kids[1].strip().cv
            if anchor in seen:
                continue
            seen.add(anchor)
            R.violated(Finding("R65", PROPS, f.file, f.name, anchor,
                               "`%s` at line %d is executed on a path on which %s() at line %d has just failed: the ENOMEM it set is "
                               "replaced, so an allocation failure is reported with the errno of another error class" %
                               (n.text()[:40], n.line, call.callee if call is not None else "an allocator",
                                call.line if call is not None else 0), n.line, trace))
    R.counts["functions_with_allocation_failure_edges"] = nf
    if nf < 20:
        raise AnalysisBroken("R65: only %d functions with a tested allocator failure found" % nf)
    R.check_floor()
    return R

"""R66 DEFAULT-PAIR (C07, C06): each precision field is initialised from the default that is named for it.

"By default, the frequency precision is 7 and the data precision is 6" (vnacal(3), vnadata(3)); a save/load round trip
is "equal to the saved precision" (C07).  The library keeps two precisions per object in members named
`*fprecision` (frequency) and `*dprecision` (data), and names their defaults `*_DEFAULT_FREQUENCY_PRECISION` and
`*_DEFAULT_DATA_PRECISION`.  For every assignment of a member whose name ends in `fprecision` / `dprecision` from an
expression that comes out of a macro named `..._DEFAULT_<WORD>_PRECISION`, WORD must be FREQUENCY for an f member and
DATA for a d member.  The macro is identified from clang's expansion record of the initialiser, not from its value
(both are small integers and both legal).
"""
import re

from ..core import Finding, RuleResult
from ..facts import AnalysisBroken

PROPS = ("C07", "C06")
PAT = re.compile(r"_DEFAULT_([A-Z]+)_PRECISION$")
WANT = {"f": "FREQUENCY", "d": "DATA"}


def run(P, tier="quick"):
    R = RuleResult("R66", "every `*fprecision` / `*dprecision` member initialised from a `*_DEFAULT_<WORD>_PRECISION` macro gets the "
                   "default named for it (FREQUENCY / DATA)", floor=2)
    n = 0
    for f in P.lib_functions():
        if f.body is None:
            continue
        for m in f.walk():
            if m.k != "BinaryOperator" or m.op != "=":
                continue
            l = m.kids[0].strip()
            if l.k != "MemberExpr" or not re.search(r"[fd]precision$", l.member or ""):
                continue
            words = []
            for x in m.kids[1].walk():
                for mac in (x.macros or ()):
                    g = PAT.search(mac)
                    if g:
                        words.append((mac, g.group(1)))
            if not words:
                continue
            n += 1
            kind = l.member[-len("precision") - 1]
            key = "R66|%s|%s|default:%s" % (f.file, f.name, l.member)
            mac, word = words[0]
            if word == WANT[kind]:
                R.ok(key, PROPS)
            else:
                R.violated(Finding("R66", PROPS, f.file, f.name, "default:%s" % l.member,
                                   "`%s` initialises the %s precision from %s: the two defaults are swapped, so an untouched object "
                                   "saves frequencies with the data precision and data with the frequency precision" %
                                   (m.text()[:60], "frequency" if kind == "f" else "data", mac), m.line))
    R.counts["default_precision_stores"] = n
    if n < 2:
        raise AnalysisBroken("R66: only %d precision members initialised from a *_DEFAULT_*_PRECISION macro found" % n)
    R.check_floor()
    return R

"""R67 OUT-ESTABLISH (C13): a recursive tree builder gives its output node a value on every successful path.

"after copy the observable tree - type, count, keys - equals that of the abstract document" (C13).  A recursive builder
(a function with a `vnaproperty_t **` output parameter that calls itself for the children) that reports success
must have written its output node: through a library call that receives the output parameter, or by a store `*out =`.
Path-sensitive (loops taken 0, 1, 2 times), for the paths that reach the loop over the children (the loop whose body
holds the recursive call): a path to `return 0` on which neither happened - the zero-iteration path of
the loop over an empty map's keys or an empty list's elements - returns a destination that still holds whatever it held
(NULL for a fresh tree): the copy of `{}` or `[]` is "nothing".
"""
from ..core import Finding, RuleResult
from ..facts import AnalysisBroken
from ..flow import Engine, Tracker, TooManyStates

PROPS = ("C13",)


class OutTracker(Tracker):
    def __init__(self, fn, out):
        self.fn, self.out = fn, out
        self.bad = None
        self.nsucc = 0

    def initial(self, fn):
        return (False, False)       # (output established, the loop over the children was reached)

    def step(self, st, n, ctx):
        est, loop = st
        if n.k == "CallExpr" and any(a.strip().k == "DeclRefExpr" and a.strip().refdecl == self.out for a in n.args()):
            return [(True, loop)]
        if n.k == "BinaryOperator" and n.op == "=":
            l = n.kids[0].strip()
            if l.k == "UnaryOperator" and l.op == "*" and l.kids[0].strip().k == "DeclRefExpr" and l.kids[0].strip().refdecl == self.out:
                return [(True, loop)]
        if n.k == "ReturnStmt" and n.kids and n.kids[0].strip().cv == 0:
            self.nsucc += 1
            if loop and not est and self.bad is None:
                self.bad = (n, ctx.trace())
        return [st]

    def branch(self, st, cond, truth, ctx):
        # the condition of a loop whose body holds the recursive call: this path handles a node with children
        for a in cond.ancestors():
            if a.k in ("ForStmt", "WhileStmt"):
                c = a.kids[2] if a.k == "ForStmt" else a.kids[0]
                body = a.kids[4] if a.k == "ForStmt" else a.kids[-1]
                if c is not None and (c.id == cond.id or c.is_ancestor_of(cond)) and body is not None and \
                        any(x.k == "CallExpr" and x.callee == self.fn.name for x in body.walk()):
                    return (st[0], True)
                break
        return st


def run(P, tier="quick"):
    R = RuleResult("R67", "every `return 0` path of a recursive property-tree builder has passed its output parameter to a call or "
                   "stored through it", floor=1)
    nb = 0
    for f in P.lib_functions():
        if f.cfg is None or not f.calls(f.name):
            continue
        outs = [p for p in f.params if (p.get("t") or "").replace(" ", "") in ("vnaproperty_t**", "structvnaproperty**")]
        if not outs:
            continue
        nb += 1
        tr = OutTracker(f, outs[0]["decl"])
        key = "R67|%s|%s|out:%s" % (f.file, f.name, outs[0]["name"])
        try:
            Engine(f, tr, 200000).run()
        except TooManyStates:
            R.unclassified(key, "too many states", PROPS)
            continue
        if tr.bad is None:
            R.ok(key, PROPS)
        else:
            n, trace = tr.bad
            # name the switch arm
            arm = ""
            for t in trace or []:
                arm = str(t)
            R.violated(Finding("R67", PROPS, f.file, f.name, "out:%s" % outs[0]["name"],
                               "`return 0` at line %d is reached on a path on which %s was neither handed to a call nor stored "
                               "through (the zero-iteration path of a loop over the children): the node for an empty map or list is "
                               "never created" % (n.line, outs[0]["name"]), n.line, trace))
    R.counts["recursive_builders"] = nb
    if nb < 1:
        raise AnalysisBroken("R67: no recursive builder with a vnaproperty_t ** output parameter found (dfs_copy)")
    R.check_floor()
    return R

"""R68 RECURSION-GUARD (C09, C03): recursion over a parsed YAML document is bounded.

"Given any byte sequence ... the loader terminates" (C09).  libyaml resolves aliases by node number, so a document
graph can contain a node that (transitively) lists itself as a child: `&a [*a]`.  A library function that walks the
document by calling itself on `yaml_document_get_node(document, <child id>)` therefore needs its own bound: without
one the 8-byte document recurses until the stack overflows.  Instances: every function that calls itself (directly)
with an argument that derives from a `yaml_document_get_node` result.  Each must contain a *depth or visited guard*:
a leave-if (`if (...) { ... return/goto }`) whose condition reads a counter (integer member or parameter) that the
function increments (`++X`, `X++`, `X += 1`, or passes `X + 1` to the recursive call) - or marks the node in a
visited table that the condition reads - on the way to the recursive call.
"""
from ..core import Finding, RuleResult
from ..facts import AnalysisBroken
from ..canon import Canon

PROPS = ("C09", "C03")
GETNODE = "yaml_document_get_node"


def run(P, tier="quick"):
    R = RuleResult("R68", "every function that recurses on a child obtained from yaml_document_get_node has a depth/visited guard", floor=1)
    n = 0
    for f in P.lib_functions():
        if f.cfg is None or not f.calls(f.name) or not f.calls(GETNODE):
            continue
        cn = Canon(f)
        # locals that hold a get_node result
        holders = set()
        for m in f.walk():
            if m.k == "BinaryOperator" and m.op == "=" and m.kids[0].strip().k == "DeclRefExpr":
                r = m.kids[1].strip()
                if r.k == "CallExpr" and r.callee == GETNODE:
                    holders.add(m.kids[0].strip().refdecl)
            if m.k == "VarDecl" and m.kids and m.kids[0].strip().k == "CallExpr" and m.kids[0].strip().callee == GETNODE:
                holders.add(m.get("decl"))
        rec = [c for c in f.calls(f.name)
               if any(x.k == "DeclRefExpr" and x.refdecl in holders for a in c.args() for x in a.walk()) or
               any(x.k == "CallExpr" and x.callee == GETNODE for a in c.args() for x in a.walk())]
        if not rec:
            continue
        n += 1
        key = "R68|%s|%s|recursion-guard" % (f.file, f.name)
        # counters the function advances
        counters = set()
        for m in f.walk():
            if m.k == "UnaryOperator" and m.op in ("++", "--"):
                counters.add(m.kids[0].strip().text())
            if m.k == "CompoundAssignOperator" and m.op in ("+=", "-="):
                counters.add(m.kids[0].strip().text())
            if m.k == "BinaryOperator" and m.op == "=" and m.kids[0].strip().k == "ArraySubscriptExpr":
                counters.add(m.kids[0].strip().kids[0].text())       # visited[id] = true
        passed_up = {}          # counter parameter -> recursive calls that pass it on incremented
        for c in rec:
            for a in c.args():
                a = a.strip()
                if a.k == "BinaryOperator" and a.op == "+" and a.kids[0].strip().k == "DeclRefExpr" and a.kids[0].strip().refkind == "param":
                    counters.add(a.kids[0].strip().text())
                    passed_up.setdefault(a.kids[0].strip().text(), set()).add(c.id)
        guarded = False
        for s in f.walk():
            if s.k != "IfStmt":
                continue
            kids = [z for z in s.kids if z is not None]
            if len(kids) < 2 or not any(z.k in ("ReturnStmt", "GotoStmt") for z in kids[1].walk()):
                continue
            for t in kids[0].walk():
                if t.k in ("DeclRefExpr", "MemberExpr", "ArraySubscriptExpr"):
                    tx = t.text() if t.k != "ArraySubscriptExpr" else t.kids[0].text()
                    if tx in counters and t.line <= min(c.line for c in rec):
                        guarded = True
        # a depth parameter bounds the recursion only if *every* recursive call passes it on incremented
        lax = None
        for nm, ids in passed_up.items():
            for c in rec:
                if c.id not in ids:
                    lax = (nm, c)
        if guarded and lax is not None:
            R.violated(Finding("R68", PROPS, f.file, f.name, "recursion-guard",
                               "%s() bounds its recursion with the depth parameter %s, but the recursive call at line %d passes it on "
                               "without incrementing it: a cycle through that branch (`&a [*a]`) is never stopped" %
                               (f.name, lax[0], lax[1].line), lax[1].line))
        elif guarded:
            R.ok(key, PROPS)
        else:
            R.violated(Finding("R68", PROPS, f.file, f.name, "recursion-guard",
                               "%s() calls itself (line %d) on a child obtained from yaml_document_get_node and has no depth or visited "
                               "guard: a document whose anchored collection contains an alias to itself (`&a [*a]`) recurses until the "
                               "stack overflows" % (f.name, rec[0].line), rec[0].line))
    R.counts["document_recursions"] = n
    if n < 1:
        raise AnalysisBroken("R68: no function recursing over yaml_document_get_node children found (_vnaproperty_yaml_import)")
    R.check_floor()
    return R

"""R69 ONE-LINE (C11): messages handed to the error functions are single lines.

vnaerr(3): "The message argument is a one-line error message without a newline."  Every format string literal passed
to one of the library's reporters (the REPORTERS table of failflow.py: _vnacal_error, _vnadata_error,
_vnaproperty_yaml_error, _vnaerr_verror users) must contain no newline.  Instances: all reporter calls with a
literal format.
"""
from ..core import Finding, RuleResult
from ..facts import AnalysisBroken
from ..failflow import REPORTERS

PROPS = ("C11",)


def literal_text(e):
    e = e.strip()
    if e.k == "StringLiteral":
        return e.d.get("value") or e.d.get("str") or e.text()
    return None


def run(P, tier="quick"):
    R = RuleResult("R69", "no format string literal passed to an error reporter contains a newline", floor=300)
    n = 0
    for f in P.lib_functions():
        if f.body is None:
            continue
        for c in f.calls():
            if c.callee not in REPORTERS:
                continue
            a = c.args()
            fi = REPORTERS[c.callee] + 1
            if fi >= len(a):
                continue
            t = literal_text(a[fi])
            if t is None:
                continue
            n += 1
            key = "R69|%s|%s|fmt#%d" % (f.file, f.name, c.line)
            if "\\n" in t or "\n" in t:
                R.violated(Finding("R69", PROPS, f.file, f.name, "newline:%s" % c.callee,
                                   "the message `%s` passed to %s() contains a newline: the user's error function is documented to "
                                   "receive one line without a newline" % (t[-50:], c.callee), c.line))
            else:
                R.ok(key, PROPS)
    R.counts["literal_formats"] = n
    if n < 300:
        raise AnalysisBroken("R69: only %d reporter calls with a literal format found" % n)
    R.check_floor()
    return R

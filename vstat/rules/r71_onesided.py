"""R71 ONE-SIDED SUCCESS (C11, C16): a public function does not report success for a handle it has only bounded from above.

vnacal_parameter(3): an invalid parameter handle is answered with -1 / EINVAL.  One-sided comparison (Engler et al.):
an early `return <success>` under `handle < K` / `handle <= K` with a positive constant K treats the K smallest handles
specially (the predefined, permanent ones) - and with them every *negative* value, unless a test of the same
parameter against 0 (or a negative constant) has already refused those.  Instances: every `if (p < K) return 0;`
(K > 0, p an int parameter of a non-static function, success = 0 for int functions) in the library.
"""
from ..core import Finding, RuleResult
from ..facts import AnalysisBroken

PROPS = ("C11", "C16")


def dominates(cfg, a, b):
    pa, pb = cfg.pos_of(a), cfg.pos_of(b)
    if pa is None or pb is None:
        return False
    if pa[0] == pb[0]:
        return pa[1] <= pb[1]
    return cfg.block_dominates(pa[0], pb[0])


def run(P, tier="quick"):
    R = RuleResult("R71", "every early success return under `p < K` (K > 0) on an int parameter of a public function is preceded by a "
                   "lower-bound test of p", floor=1)
    n = 0
    for f in P.lib_functions():
        if f.cfg is None or f.static or f.name.startswith("_") or (f.ret or "") != "int":
            continue
        ip = {p["decl"]: p["name"] for p in f.params if (p.get("t") or "") == "int"}
        if not ip:
            continue
        for s in f.walk():
            if s.k != "IfStmt":
                continue
            kids = [z for z in s.kids if z is not None]
            then = kids[1]
            st = [z for z in (then.kids if then.k == "CompoundStmt" else [then]) if z is not None]
            if not (len(st) == 1 and st[0].k == "ReturnStmt" and st[0].kids and st[0].kids[0].strip().cv == 0):
                continue
            # the upper-bound comparison: the whole condition, or a conjunct of it
            def conj(e):
                e = e.strip()
                if e.k == "BinaryOperator" and e.op == "&&":
                    return conj(e.kids[0]) + conj(e.kids[1])
                return [e]
            cs = conj(kids[0])
            ups = [c for c in cs if c.k == "BinaryOperator" and c.op in ("<", "<=") and c.kids[0].strip().k == "DeclRefExpr" and
                   c.kids[0].strip().refdecl in ip and c.kids[1].strip().cv is not None and c.kids[1].strip().cv > 0]
            if not ups:
                continue
            c = ups[0]
            a, b = c.kids[0].strip(), c.kids[1].strip()
            n += 1
            key = "R71|%s|%s|onesided:%s" % (f.file, f.name, ip[a.refdecl])
            low = False
            for t in f.walk():
                if t.k == "BinaryOperator" and t.op in ("<", "<=", ">", ">=") and t.id != c.id:
                    x, y = t.kids[0].strip(), t.kids[1].strip()
                    for u, v in ((x, y), (y, x)):
                        if u.k == "DeclRefExpr" and u.refdecl == a.refdecl and v.cv is not None and v.cv <= 0 and \
                                (dominates(f.cfg, t, c) or any(q.id == t.id for q in cs)):
                            low = True
            if low:
                R.ok(key, PROPS)
            else:
                R.violated(Finding("R71", PROPS, f.file, f.name, "onesided:%s" % ip[a.refdecl],
                                   "`if (%s) return 0;` reports success for every %s below %d, including all negative values: no test "
                                   "of %s against 0 precedes it, so an invalid (negative) handle is accepted where the manual promises "
                                   "-1/EINVAL" % (c.text(), ip[a.refdecl], b.cv, ip[a.refdecl]), s.line))
    R.counts["one_sided_success_returns"] = n
    if n < 1:
        raise AnalysisBroken("R71: no `if (p < K) return 0;` on an int parameter found (vnacal_delete_parameter)")
    R.check_floor()
    return R

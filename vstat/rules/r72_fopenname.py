"""R72 FOPEN-NAME (C11): a failed fopen is reported against the name that was opened.

"calls the user's error function ... one line" describing the failure (C11).  For every `fopen(PATH, mode)` in the
library whose NULL result leads to an error report, the report's arguments must contain PATH (the same expression, casts
stripped) or a copy of it made in front of the call (`X = strdup(PATH)`) - not another name the object happens to remember (vc_filename is the file of the *previous* load/save and
is NULL for a fresh vnacal_create: "fopen: (null): ...").
"""
from ..core import Finding, RuleResult
from ..facts import AnalysisBroken
from ..failflow import REPORTERS, FIXED_REPORTERS
from ..util import is_null

PROPS = ("C11",)


def run(P, tier="quick"):
    R = RuleResult("R72", "the error report on the NULL edge of every fopen(PATH, ..) names PATH", floor=3)
    n = 0
    for f in P.lib_functions():
        if f.body is None:
            continue
        for c in f.calls("fopen"):
            path = c.args()[0].strip().text().replace(" ", "")
            # the if statement testing the result
            ifs = None
            for a in c.ancestors():
                if a.k == "IfStmt":
                    kids = [z for z in a.kids if z is not None]
                    if kids[0].is_ancestor_of(c) or kids[0].id == c.id:
                        ifs = a
                    break
            if ifs is None:
                continue
            then = [z for z in ifs.kids if z is not None][1]
            reps = [r for r in then.walk() if r.k == "CallExpr" and (r.callee in REPORTERS or r.callee in FIXED_REPORTERS)]
            if not reps:
                continue
            n += 1
            key = "R72|%s|%s|fopen:%s" % (f.file, f.name, path[:20])
            named = any(a.strip().text().replace(" ", "") == path for r in reps for a in r.args())
            if not named and f.cfg is not None:
                # a copy of PATH made in front of the fopen: X = strdup(PATH) / X = PATH, reported as X
                for m in f.walk():
                    if m.k == "BinaryOperator" and m.op == "=" and m.line < c.line:
                        r_ = m.kids[1].strip()
                        src = r_.args()[0].strip() if (r_.k == "CallExpr" and r_.callee == "strdup" and r_.args()) else r_
                        if src.text().replace(" ", "") == path:
                            x = m.kids[0].strip().text().replace(" ", "")
                            if any(a.strip().text().replace(" ", "") == x for r in reps for a in r.args()):
                                named = True
            if named:
                R.ok(key, PROPS)
            else:
                R.violated(Finding("R72", PROPS, f.file, f.name, "fopen:%s" % path[:20],
                                   "fopen(%s, ..) failed but the report names %s: the message describes a different (possibly NULL) "
                                   "file name" % (path, ", ".join(a.strip().text()[:30] for a in reps[0].args()[2:4])), reps[0].line))
    R.counts["reported_fopen_failures"] = n
    if n < 3:
        raise AnalysisBroken("R72: only %d fopen calls with a reported failure found" % n)
    R.check_floor()
    return R

"""R73 CHAR-SHIFT (C09, C03): a byte taken from file text is not shifted left as a signed value.

"parsers execute no undefined behaviour on any input" (C09).  Plain `char` is signed on the supported platforms, so a
byte >= 0x80 of a key read from a file is a negative int after promotion, and `negative << n` is undefined
(C11 6.5.7p4).  Instances: every `<<` in the library whose left operand - integer promotion and parentheses stripped -
has type `char` or `signed char` (also as an element of a char array).  It must be made unsigned first: a cast to
`unsigned char` (or another unsigned type) or a mask `& 0xff`, or the array must be declared `unsigned char`.
"""
from ..core import Finding, RuleResult
from ..facts import AnalysisBroken

PROPS = ("C09", "C03")


def run(P, tier="quick"):
    R = RuleResult("R73", "no `<<` has a (signed) char left operand", floor=1)
    n = nshift = 0
    for f in P.lib_functions():
        if f.body is None:
            continue
        for m in f.walk():
            if m.k != "BinaryOperator" or m.op != "<<":
                continue
            nshift += 1
            e = m.kids[0]
            x = e
            while x is not None and x.k in ("ImplicitCastExpr", "ParenExpr"):
                x = x.kids[0]
            t = (x.ctype or "").replace("const ", "").strip() if x is not None else ""
            if t not in ("char", "signed char"):
                continue
            n += 1
            key = "R73|%s|%s|shift#%d" % (f.file, f.name, n)
            R.violated(Finding("R73", PROPS, f.file, f.name, "char-shift:%s" % x.text()[:20],
                               "`%s` shifts a value of type %s: for a byte >= 0x80 (non-ASCII text in the file) the promoted operand is "
                               "negative and the shift is undefined behaviour" % (m.text()[:50], t), m.line))
    R.counts["left_shifts"] = nshift
    R.counts["char_left_shifts"] = n
    if nshift < 5:
        raise AnalysisBroken("R73: only %d left shifts found in the library" % nshift)
    if n == 0:
        R.ok("R73|all|left-shifts|none-signed-char", PROPS)
    R.check_floor()
    return R

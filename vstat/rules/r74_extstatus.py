"""R74 EXT-STATUS (C12, C09): the status returned by a fallible libyaml call is examined.

"a single allocation failure yields a clean failure, nothing worse" (C12).  libyaml's constructors and document
builders allocate and return 0 on failure (yaml_parser_initialize, yaml_emitter_initialize, yaml_document_initialize,
yaml_parser_load, yaml_emitter_open/dump/close/flush, yaml_document_add_scalar/sequence/mapping,
yaml_document_append_sequence_item/mapping_pair).  A call whose value is discarded (an expression statement, or a cast
to void) continues with an object that was never set up: yaml_parser_load() on an uninitialised parser asserts.
Instances: every call of one of these functions in the library; the rule is the library's own majority practice
(all but the parser initialisations are tested).
"""
from ..core import Finding, RuleResult
from ..facts import AnalysisBroken

PROPS = ("C12", "C09")
FALLIBLE = ("yaml_parser_initialize", "yaml_emitter_initialize", "yaml_document_initialize", "yaml_parser_load",
            "yaml_emitter_open", "yaml_emitter_dump", "yaml_emitter_close", "yaml_emitter_flush",
            "yaml_document_add_scalar", "yaml_document_add_sequence", "yaml_document_add_mapping",
            "yaml_document_append_sequence_item", "yaml_document_append_mapping_pair")


def run(P, tier="quick"):
    R = RuleResult("R74", "no call of a fallible libyaml function has its status discarded", floor=20)
    n = 0
    for f in P.lib_functions():
        if f.body is None:
            continue
        k = 0
        for c in f.calls():
            if c.callee not in FALLIBLE:
                continue
            n += 1
            k += 1
            par = c.parent
            while par is not None and par.k in ("ParenExpr", "ImplicitCastExpr"):
                par = par.parent
            discarded = par is None or par.k in ("CompoundStmt", "IfStmt", "ForStmt", "WhileStmt", "CaseStmt", "LabelStmt", "DefaultStmt") and \
                not (par.k == "IfStmt" and [z for z in par.kids if z is not None][0].is_ancestor_of(c))
            if par is not None and par.k == "CStyleCastExpr" and (par.ctype or "") == "void":
                discarded = True
            if par is not None and par.k in ("IfStmt", "WhileStmt", "ForStmt"):
                conds = [z for z in par.kids if z is not None]
                discarded = not any(z.id == c.id or z.is_ancestor_of(c) for z in conds[:1]) if par.k != "ForStmt" else True
                if par.k == "ForStmt" and par.kids[2] is not None and (par.kids[2].id == c.id or par.kids[2].is_ancestor_of(c)):
                    discarded = False
            key = "R74|%s|%s|%s#%d" % (f.file, f.name, c.callee, k)
            if discarded:
                R.violated(Finding("R74", PROPS, f.file, f.name, "unchecked:%s" % c.callee,
                                   "the status of %s() is discarded: when one of its allocations fails the function goes on with an "
                                   "object that was never set up (every other libyaml status in the library is tested)" % c.callee, c.line))
            else:
                R.ok(key, PROPS)
    R.counts["libyaml_status_calls"] = n
    if n < 20:
        raise AnalysisBroken("R74: only %d calls of fallible libyaml functions found" % n)
    R.check_floor()
    return R

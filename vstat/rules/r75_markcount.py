"""R75 MARK-COUNT (C03, C13): positions marked for expansion and the counter that sizes the output advance together.

Count-then-fill: a function marks positions in a bool table (`map[i] = true`), counts them (`++n_special`), allocates
`length + n_special + 1` bytes and then writes one extra byte for every marked position.  The output fits exactly when
every mark has its own increment.  Instances: every function with a local bool table M that receives `true` stores and
an int counter C that occurs in the size argument of a later malloc/calloc/realloc together with being incremented:
each store `M[..] = true` must have exactly one increment of C among the statements of the same compound statement,
and each increment of C exactly one such store.  A mark without a count makes the fill loop write past the allocation
(vnaproperty_quote_key: a key with several trailing blanks).  An extra count only over-allocates and is not reported.
"""
from ..core import Finding, RuleResult
from ..facts import AnalysisBroken

PROPS = ("C03", "C13")
ALLOCS = ("malloc", "calloc", "realloc")


def run(P, tier="quick"):
    R = RuleResult("R75", "every `M[..] = true` store into a local mark table has an increment of the size counter in the same compound "
                   "statement", floor=2)
    npairs = 0
    for f in P.lib_functions():
        if f.body is None:
            continue
        # counters in allocation sizes
        size_counters = set()
        for c in f.calls():
            if c.callee in ALLOCS:
                for a in c.args():
                    for m in a.walk():
                        if m.k == "DeclRefExpr" and m.refkind == "local" and (m.ctype or "") in ("int", "size_t", "unsigned int"):
                            size_counters.add(m.refdecl)
        incs = {}
        for m in f.walk():
            if m.k == "UnaryOperator" and m.op in ("++",) and m.kids[0].strip().k == "DeclRefExpr" and m.kids[0].strip().refdecl in size_counters:
                incs.setdefault(m.kids[0].strip().refdecl, []).append(m)
        if not incs:
            continue
        marks = []
        for m in f.walk():
            if m.k == "BinaryOperator" and m.op == "=":
                l, r = m.kids[0].strip(), m.kids[1].strip()
                if l.k == "ArraySubscriptExpr" and (l.ctype or "").replace("const ", "") in ("_Bool", "bool") and r.cv == 1 and \
                        l.kids[0].strip().k == "DeclRefExpr" and l.kids[0].strip().refkind == "local":
                    marks.append(m)
        if not marks:
            continue

        def compound_of(n):
            for a in n.ancestors():
                if a.k == "CompoundStmt":
                    return a
            return None
        for mk in marks:
            npairs += 1
            cs = compound_of(mk)
            sib = [i for lst in incs.values() for i in lst if compound_of(i) is not None and cs is not None and compound_of(i).id == cs.id]
            name = mk.kids[0].strip().kids[0].strip().refname
            key = "R75|%s|%s|mark:%s#%d" % (f.file, f.name, name, npairs)
            if len(sib) >= 1:
                R.ok(key, PROPS)
            else:
                cn = [i.kids[0].strip().refname for lst in incs.values() for i in lst][0]
                R.violated(Finding("R75", PROPS, f.file, f.name, "mark:%s" % name,
                                   "`%s` marks a position for an extra output byte but %s, which sizes the allocation, is not "
                                   "incremented in the same block: the fill loop writes one byte per mark and runs past the buffer" %
                                   (mk.text()[:40], cn), mk.line))
    R.counts["mark_stores"] = npairs
    if npairs < 2:
        raise AnalysisBroken("R75: only %d mark stores with a size counter found (vnaproperty_quote_key has 3)" % npairs)
    R.check_floor()
    return R

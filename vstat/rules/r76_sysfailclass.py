"""R76 SYSFAIL-CLASS (C12, C11): the failure of a silent helper that can run out of memory is reported as a system error.

"a failed allocation gives the documented failure value and errno ENOMEM" (C12).  Some internal helpers allocate, report
nothing themselves and leave the report to their caller ("error reported by caller": _vnacommon_spline_calc, the
extenders, hash_expand ...).  Their failure value does not say *why* they failed, so a caller that words its report
for one cause must not pick a category that overrides errno: the reporters set errno from the category
(VNAERR_USAGE -> EINVAL, VNAERR_MATH -> EDOM, VNAERR_SYNTAX -> EBADMSG).  Instances: every `if (<call of a silent
allocating helper> == -1 / == NULL) { report }` in the library.  The report's category must be VNAERR_SYSTEM, unless the
branch first tells the causes apart by testing errno.
"""
from ..core import Finding, RuleResult
from ..facts import AnalysisBroken
from ..failflow import REPORTERS, FIXED_REPORTERS
from ..util import is_null

PROPS = ("C12", "C11")
ALLOCS = ("malloc", "calloc", "realloc", "strdup", "vasprintf")


def silent_allocating(P, g, memo, depth=0):
    k = g.key()
    if k in memo:
        return memo[k]
    memo[k] = False
    if g.body is None:
        return False
    if any(c.callee in REPORTERS or c.callee in FIXED_REPORTERS for c in g.calls()):
        return False
    r = any(c.callee in ALLOCS for c in g.calls())
    if not r and depth < 2:
        for c in g.calls():
            h = P.resolve_call(c, g)
            if h is not None and h.body is not None and silent_allocating(P, h, memo, depth + 1):
                r = True
    # it must be able to return a failure value
    if r and not any(x.kids and (x.kids[0].strip().cv == -1 or is_null(x.kids[0]) or x.kids[0].strip().k == "DeclRefExpr") for x in g.returns()):
        r = False
    memo[k] = r
    return r


def run(P, tier="quick"):
    R = RuleResult("R76", "every report on the failure edge of a silent allocating helper has category VNAERR_SYSTEM (or follows a test "
                   "of errno)", floor=10)
    memo = {}
    n = 0
    for f in P.lib_functions():
        if f.body is None:
            continue
        for s in f.walk():
            if s.k != "IfStmt":
                continue
            kids = [z for z in s.kids if z is not None]
            c = kids[0].strip()
            if c.k != "BinaryOperator" or c.op != "==":
                continue
            a, b = c.kids[0].strip(), c.kids[1].strip()
            while a.k == "BinaryOperator" and a.op == "=":    # also `p = q = calloc(..)`
                a = a.kids[1].strip()
            if a.k != "CallExpr" or not (b.cv == -1 or is_null(b)):
                continue
            g = P.resolve_call(a, f)
            if g is None or g.body is None or not silent_allocating(P, g, memo):
                continue
            then = kids[1]
            reps = []
            for r in then.walk():
                if r.k == "CallExpr" and r.callee in REPORTERS and len(r.args()) > REPORTERS[r.callee]:
                    reps.append((r, r.args()[REPORTERS[r.callee]].strip().refname))
                elif r.k == "CallExpr" and r.callee in FIXED_REPORTERS:
                    reps.append((r, FIXED_REPORTERS[r.callee]))
            if not reps:
                continue
            n += 1
            key = "R76|%s|%s|sysfail:%s#%d" % (f.file, f.name, a.callee, n)
            errno_split = any("__errno_location" in q.text() for q in then.walk() if q.k in ("IfStmt", "SwitchStmt", "ConditionalOperator")
                              for q in [[z for z in q.kids if z is not None][0]])
            bad = [(r, cat) for (r, cat) in reps if cat not in ("VNAERR_SYSTEM", None)]
            if bad and not errno_split:
                r, cat = bad[0]
                R.violated(Finding("R76", PROPS, f.file, f.name, "sysfail:%s" % a.callee,
                                   "%s() allocates and reports nothing itself, so its failure may be ENOMEM; the branch reports it as "
                                   "%s, which replaces errno by that category's class: an allocation failure is then documented to the "
                                   "caller as a %s" % (a.callee, cat, "usage error (EINVAL)" if cat == "VNAERR_USAGE" else "different error"),
                                   r.line))
            else:
                R.ok(key, PROPS)
    R.counts["silent_helper_failure_reports"] = n
    if n < 10:
        raise AnalysisBroken("R76: only %d reported failures of silent allocating helpers found" % n)
    R.check_floor()
    return R

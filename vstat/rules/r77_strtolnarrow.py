"""R77 STRTOL-NARROW (C09, C13, C03): an integer scanned from text is range-checked before it becomes an `int`.

"arbitrary bytes are rejected cleanly or loaded whole" (C09); "malformed descriptors fail with EINVAL" (C13).  strtol
returns a long; stored straight into an int, `4294967298` becomes 2 (a file claiming 4294967298 ports loads as a 2-port)
and `[2147483647]` becomes a subscript whose `index + 1` overflows.  Instances: every call of strtol/strtoul/strtoll
in the library whose value is converted to a narrower integer type (the call is the right-hand side of an assignment
or initialisation of an int/short lvalue, possibly through a cast).  Each must keep the value in a `long` first and
compare it with INT_MAX / INT_MIN (or a smaller limit), or test errno for ERANGE *and* compare - a bare narrowing
store is reported.
"""
from ..core import Finding, RuleResult
from ..facts import AnalysisBroken

PROPS = ("C09", "C13", "C03")
SCANNERS = ("strtol", "strtoul", "strtoll", "strtoull")
NARROW = ("int", "unsigned int", "short", "unsigned short", "char")


def dominates(cfg, a, b):
    pa, pb = cfg.pos_of(a), cfg.pos_of(b)
    if pa is None or pb is None:
        return False
    if pa[0] == pb[0]:
        return pa[1] <= pb[1]
    return cfg.block_dominates(pa[0], pb[0])


def run(P, tier="quick"):
    R = RuleResult("R77", "no strtol-family result is stored directly into an int", floor=2)
    n = 0
    for f in P.lib_functions():
        if f.body is None:
            continue
        for c in f.calls():
            if c.callee not in SCANNERS:
                continue
            n += 1
            key = "R77|%s|%s|%s#%d" % (f.file, f.name, c.callee, n)
            par = c.parent
            while par is not None and par.k in ("ParenExpr", "ImplicitCastExpr", "CStyleCastExpr"):
                par = par.parent
            target = None
            if par is not None and par.k == "BinaryOperator" and par.op == "=" and par.kids[1].strip().id == c.id:
                target = par.kids[0].strip()
                ttype = (target.ctype or "").replace("const ", "")
            elif par is not None and par.k == "VarDecl":
                target = par
                ttype = (par.ctype or "").replace("const ", "")
            if target is not None and ttype in NARROW:
                R.violated(Finding("R77", PROPS, f.file, f.name, "narrow:%s" % (target.text()[:24] if target.k != "VarDecl" else target.get("name")),
                                   "the long returned by %s() is stored into the %s `%s` without a range check: a number above INT_MAX "
                                   "is silently reduced modulo 2^32 (and INT_MAX itself overflows a later `+ 1`)" %
                                   (c.callee, ttype, target.text()[:30] if target.k != "VarDecl" else target.get("name")), c.line))
            else:
                # kept in a wide local: every later narrowing copy of that local needs an upper-bound refusal in front of it
                wide = None
                if target is not None and target.k == "VarDecl":
                    wide = target.get("decl")
                elif target is not None and target.k == "DeclRefExpr":
                    wide = target.refdecl
                bad = None
                if wide is not None and f.cfg is not None:
                    for m in f.walk():
                        if m.k == "BinaryOperator" and m.op == "=" and (m.kids[0].strip().ctype or "").replace("const ", "") in NARROW and \
                                any(x.k == "DeclRefExpr" and x.refdecl == wide for x in m.kids[1].walk()):
                            bounded = False
                            for t in f.walk():
                                if t.k == "BinaryOperator" and t.op in (">", ">=", "<", "<="):
                                    a_, b_ = t.kids[0].strip(), t.kids[1].strip()
                                    up = (t.op in (">", ">=") and a_.k == "DeclRefExpr" and a_.refdecl == wide) or \
                                         (t.op in ("<", "<=") and b_.k == "DeclRefExpr" and b_.refdecl == wide)
                                    if up and dominates(f.cfg, t, m):
                                        bounded = True
                            if not bounded:
                                bad = m
                if bad is not None:
                    R.violated(Finding("R77", PROPS, f.file, f.name, "narrow:%s" % bad.kids[0].strip().text()[:24],
                                       "the value of %s() is copied into the narrower `%s` without an upper-bound refusal in front" %
                                       (c.callee, bad.kids[0].strip().text()[:30]), bad.line))
                else:
                    R.ok(key, PROPS)
    R.counts["strtol_calls"] = n
    if n < 2:
        raise AnalysisBroken("R77: only %d strtol-family calls found" % n)
    R.check_floor()
    return R

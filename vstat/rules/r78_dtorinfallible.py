"""R78 DTOR-INFALLIBLE (C12, C03): a destructor does not release a member through a call that itself needs memory.

"after the matching free functions ... no allocation made by the library remains" (C03); "a single allocation failure
... without leaking" (C12).  Instances: every function without a result (`void`) that frees its parameter or members of
it (the destructors and teardown helpers) and every int-returning public `*_free`/`*_delete*` function; in them, every
call of a library function whose failure can stem from an allocation (it reaches malloc/calloc/realloc/strdup/vasprintf,
depth 3, and has a failure return) and whose result is discarded - `(void)f(..)` or a bare expression statement.  When
that allocation fails the callee has released nothing, the result says so, nobody looks, and the owner is freed right
after: the member's tree is lost for good (vnaproperty_delete(&x, ".") formats and parses its descriptor before it
frees anything).
"""
from ..core import Finding, RuleResult
from ..facts import AnalysisBroken
from ..util import is_null

PROPS = ("C12", "C03")
ALLOCS = ("malloc", "calloc", "realloc", "strdup", "vasprintf", "asprintf")


def can_fail_for_memory(P, g, memo, depth=0):
    k = g.key()
    if k in memo:
        return memo[k]
    memo[k] = False
    if g.body is None or (g.ret or "void") == "void":
        return False
    r = any(c.callee in ALLOCS for c in g.calls())
    if not r and depth < 3:
        for c in g.calls():
            h = P.resolve_call(c, g)
            if h is not None and h.body is not None and h.key() != k and can_fail_for_memory(P, h, memo, depth + 1):
                r = True
                break
    if r and not any(x.kids and (x.kids[0].strip().cv == -1 or is_null(x.kids[0]) or x.kids[0].strip().k == "DeclRefExpr")
                     for x in g.returns()):
        r = False
    memo[k] = r
    return r


def is_destructor(f):
    if f.body is None or not f.params:
        return False
    pd = {p["decl"] for p in f.params}
    frees = False
    for c in f.calls("free"):
        if c.args() and any(m.k == "DeclRefExpr" and m.refdecl in pd for m in c.args()[0].walk()):
            frees = True
    return frees and ((f.ret or "void") == "void" or "free" in f.name or "teardown" in f.name)


def run(P, tier="quick"):
    R = RuleResult("R78", "no destructor discards the result of a library call that can fail for lack of memory", floor=6)
    memo = {}
    nd = ncalls = 0
    for f in P.lib_functions():
        if not is_destructor(f):
            continue
        nd += 1
        bad = []
        for c in f.calls():
            g = P.resolve_call(c, f)
            if g is None or g.body is None:
                continue
            par = c.parent
            while par is not None and par.k in ("ParenExpr", "ImplicitCastExpr"):
                par = par.parent
            discarded = par is not None and (par.k == "CompoundStmt" or (par.k == "CStyleCastExpr" and (par.ctype or "") == "void") or
                                             par.k in ("IfStmt", "ForStmt", "WhileStmt") and not any(
                                                 z is not None and (z.id == c.id or z.is_ancestor_of(c))
                                                 for z in ([par.kids[2]] if par.k == "ForStmt" else [[q for q in par.kids if q is not None][0]])))
            if not discarded:
                continue
            ncalls += 1
            if can_fail_for_memory(P, g, memo):
                bad.append(c)
        key = "R78|%s|%s|discarded-fallible" % (f.file, f.name)
        if not bad:
            R.ok(key, PROPS)
        for c in bad:
            R.violated(Finding("R78", PROPS, f.file, f.name, "needs-memory:%s" % c.callee,
                               "%s() releases part of its object through %s(), discards the result, and that function allocates before it "
                               "frees anything: if the allocation fails nothing is released and the owner is freed right after - "
                               "the sub-object is leaked by the very call that is meant to free it" % (f.name, c.callee), c.line))
    R.counts["destructors"] = nd
    R.counts["discarded_library_calls"] = ncalls
    if nd < 6:
        raise AnalysisBroken("R78: only %d destructors found" % nd)
    R.check_floor()
    return R

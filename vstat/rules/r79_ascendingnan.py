"""R79 ASCENDING-NAN (C11, C10): a refusal of non-ascending user vectors also refuses NaN.

The manual asks for "a vector of increasing frequency values".  The library enforces it with `if (v[i-1] >= v[i])
refuse` - and every ordered comparison with a NaN is false, so {3e9, NaN, 1e9} passes as "ascending".  Instances:
every refusal (an `if` whose branch reports VNAERR_USAGE and leaves) in a non-static library function whose condition
compares two elements of the same `double` vector parameter at adjacent subscripts (i-1 / i, i / i+1).  Each must be
NaN-safe: written in negated-accept form (`!(v[i-1] < v[i])`), or accompanied in the same function by an isnan /
isfinite test of the vector's elements (as vnacal_new_set_frequency_vector has).
"""
from ..core import Finding, RuleResult
from ..facts import AnalysisBroken
from ..failflow import REPORTERS

PROPS = ("C11", "C10")
NANTESTS = ("isnan", "isfinite", "__builtin_isnan", "__builtin_isfinite", "isnormal", "__builtin_isnormal", "fpclassify", "__builtin_fpclassify")


def base_of(e):
    """the vector an element expression subscripts: a `double *` parameter, or a `double *` member of a by-value argument
    structure (vaa.vaa_frequency_vector) -> (key, printable name)"""
    e = e.strip()
    if e.k != "ArraySubscriptExpr":
        return None
    b = e.kids[0].strip()
    if "double" not in (b.ctype or ""):
        return None
    if b.k == "DeclRefExpr" and b.refkind == "param":
        return (("p", b.refdecl), b.refname)
    if b.k == "MemberExpr" and not b.get("arrow") and b.kids[0].strip().k == "DeclRefExpr" and b.kids[0].strip().refkind == "param":
        return (("m", b.kids[0].strip().refdecl, b.member), b.text())
    return None


def run(P, tier="quick"):
    R = RuleResult("R79", "every ascending-order refusal of a double vector argument is NaN-safe (negated-accept form or isnan test)", floor=3)
    n = 0
    for f in P.lib_functions():
        if f.body is None or f.static:
            continue
        for s in f.walk():
            if s.k != "IfStmt":
                continue
            kids = [z for z in s.kids if z is not None]
            if len(kids) < 2:
                continue
            reports = any(c.k == "CallExpr" and c.callee in REPORTERS and len(c.args()) > REPORTERS[c.callee] and
                          c.args()[REPORTERS[c.callee]].strip().refname == "VNAERR_USAGE" for c in kids[1].walk())
            if not reports or not any(z.k in ("ReturnStmt", "GotoStmt") for z in kids[1].walk()):
                continue
            for t in kids[0].walk():
                if t.k != "BinaryOperator" or t.op not in ("<", "<=", ">", ">="):
                    continue
                a, b = base_of(t.kids[0]), base_of(t.kids[1])
                if a is None or b is None or a[0] != b[0]:
                    continue
                if t.kids[0].strip().kids[1].text() == t.kids[1].strip().kids[1].text():
                    continue
                n += 1
                name = a[1]
                key = "R79|%s|%s|ascending:%s" % (f.file, f.name, name)
                negated = sum(1 for q in t.ancestors() if q.k == "UnaryOperator" and q.op == "!" and
                              (kids[0].id == q.id or kids[0].is_ancestor_of(q))) % 2 == 1
                # an isnan/isfinite test of an element of the vector, also through a local the element was loaded into
                elem_locals = set()
                for v in f.vardecls():
                    if v.kids and base_of(v.kids[0]) is not None and base_of(v.kids[0])[0] == a[0]:
                        elem_locals.add(v.get("decl"))
                tested = any(c.k == "CallExpr" and c.callee in NANTESTS and
                             any((base_of(x) is not None and base_of(x)[0] == a[0]) or
                                 (x.k == "DeclRefExpr" and x.refdecl in elem_locals) for arg in c.args() for x in arg.walk())
                             for c in f.walk())
                if negated or tested:
                    R.ok(key, PROPS)
                else:
                    R.violated(Finding("R79", PROPS, f.file, f.name, "ascending:%s" % name,
                                       "`%s` refuses only when the comparison is true; with a NaN element it is false, so a vector such "
                                       "as {3e9, NaN, 1e9} is accepted as ascending (no isnan test of %s in the function)" %
                                       (t.text()[:60], name), t.line))
    R.counts["ascending_refusals"] = n
    if n < 3:
        raise AnalysisBroken("R79: only %d ascending-order refusals of double vector parameters found" % n)
    R.check_floor()
    return R

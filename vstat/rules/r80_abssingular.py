"""R80 ABS-SINGULAR (C19, C17): a "singular / cannot solve" verdict is not taken by comparing data with an absolute constant.

"... independent of row order and row scaling of the inputs" (C19); equivalent descriptions of the same calibration
give the same result (C17).  A refusal that reports VNAERR_MATH because a computed double is below (or above) a
non-zero literal - `if (cabs(a) < 1.0e-8) singular` - gives a different verdict when all measurements are expressed
in another unit or attenuated by 90 dB, although the system is just as well conditioned.  Instances: every `if` in the
calibration code whose branch reports VNAERR_MATH and leaves, and whose condition compares a double-typed expression
with a floating literal other than 0 (limits configured by the user - members such as vn_pvalue_limit - are not
literals and take no part).  A relative test (ratio of two computed quantities against a constant) is accepted.
"""
from ..core import Finding, RuleResult
from ..facts import AnalysisBroken
from ..failflow import REPORTERS

PROPS = ("C19", "C17")


def run(P, tier="quick"):
    R = RuleResult("R80", "no VNAERR_MATH refusal is decided by comparing a computed double with a non-zero literal", floor=10)
    n = 0
    for f in P.lib_functions():
        if f.body is None:
            continue
        for s in f.walk():
            if s.k != "IfStmt":
                continue
            kids = [z for z in s.kids if z is not None]
            if len(kids) < 2:
                continue
            math = any(c.k == "CallExpr" and c.callee in REPORTERS and len(c.args()) > REPORTERS[c.callee] and
                       c.args()[REPORTERS[c.callee]].strip().refname == "VNAERR_MATH" for c in kids[1].walk())
            if not math or not any(z.k in ("ReturnStmt", "GotoStmt") for z in kids[1].walk()):
                continue
            n += 1
            key = "R80|%s|%s|math-refusal#%d" % (f.file, f.name, n)
            bad = None
            for t in kids[0].walk():
                if t.k != "BinaryOperator" or t.op not in ("<", "<=", ">", ">="):
                    continue
                a, b = t.kids[0].strip(), t.kids[1].strip()
                for x, y in ((a, b), (b, a)):
                    if y.k == "FloatingLiteral" and y.val not in (0, 0.0) and "double" in (x.ctype or ""):
                        ratio = x.k == "BinaryOperator" and x.op == "/"
                        if not ratio:
                            bad = (t, y)
            if bad is None:
                R.ok(key, PROPS)
            else:
                t, y = bad
                R.violated(Finding("R80", PROPS, f.file, f.name, "abs-threshold:%s" % t.text()[:24],
                                   "`%s` decides a VNAERR_MATH refusal by comparing a computed quantity with the absolute constant %s: "
                                   "the same well-conditioned data scaled by a constant factor (another unit, an attenuator) is "
                                   "refused as singular" % (t.text()[:50], y.val), t.line))
    R.counts["math_refusals"] = n
    if n < 10:
        raise AnalysisBroken("R80: only %d VNAERR_MATH refusals found" % n)
    R.check_floor()
    return R

"""R81 RAW-KEY (C13, C14 for the YAML exporter): a key taken from vnaproperty_keys() is quoted before it is spliced into a descriptor.

"vnaproperty_quote_key turns any key string into a descriptor component that addresses exactly that key" (C13).  The
strings returned by vnaproperty_keys() are the raw keys; a key such as `my.key`, `port[1]` or `x=y` spliced unquoted
into a descriptor format (`"%s"`) addresses something else (or nothing).  Qualifier analysis: *raw* = an element of
the array returned by vnaproperty_keys (through `*cpp`, `keys[i]`, and locals assigned from them); *quoted* = the
result of vnaproperty_quote_key.  Instances: every variadic argument of a descriptor-taking library function
(`vnaproperty_*` / `vnacal_property_*` with a `const char *format, ...` tail) in the library's own code that is raw.
Each is a finding: it must be the quoted string.
"""
from ..core import Finding, RuleResult
from ..facts import AnalysisBroken
from ..canon import Canon

PROPS = ("C13",)


def run(P, tier="quick"):
    R = RuleResult("R81", "no raw element of a vnaproperty_keys() result is passed as a variadic argument of a descriptor function", floor=2)
    n = 0
    for f in P.lib_functions():
        if f.body is None or not f.calls("vnaproperty_keys"):
            continue
        cn = Canon(f)
        # the YAML exporter's look-ups also carry C14 (export/import fidelity of keys)
        props = PROPS + ("C14",) if any((c.callee or "").startswith("yaml_document_") for c in f.calls()) else PROPS
        # arrays holding a keys() result
        arrays = set()
        for m in f.walk():
            if m.k == "BinaryOperator" and m.op == "=" and m.kids[0].strip().k == "DeclRefExpr":
                r = m.kids[1].strip()
                if r.k == "CallExpr" and r.callee == "vnaproperty_keys":
                    arrays.add(m.kids[0].strip().refdecl)
            if m.k == "VarDecl" and m.kids and m.kids[0].strip().k == "CallExpr" and m.kids[0].strip().callee == "vnaproperty_keys":
                arrays.add(m.get("decl"))
        # cursors over them: `for (cpp = keys; ...)`
        changed = True
        while changed:
            changed = False
            for m in f.walk():
                tgt = rhs = None
                if m.k == "BinaryOperator" and m.op == "=" and m.kids[0].strip().k == "DeclRefExpr":
                    tgt, rhs = m.kids[0].strip().refdecl, m.kids[1].strip()
                elif m.k == "VarDecl" and m.kids:
                    tgt, rhs = m.get("decl"), m.kids[0].strip()
                if tgt is not None and tgt not in arrays and rhs.k == "DeclRefExpr" and rhs.refdecl in arrays:
                    arrays.add(tgt)
                    changed = True

        def raw(e, depth=0):
            e = e.strip()
            if e.k == "UnaryOperator" and e.op == "*" and e.kids[0].strip().k == "DeclRefExpr" and e.kids[0].strip().refdecl in arrays:
                return True
            if e.k == "ArraySubscriptExpr" and e.kids[0].strip().k == "DeclRefExpr" and e.kids[0].strip().refdecl in arrays:
                return True
            if e.k == "DeclRefExpr" and e.refkind == "local" and depth < 3:
                ds = [rhs for kind, rhs in cn.defs.get(e.refdecl, []) if rhs is not None]
                return bool(ds) and all(raw(d, depth + 1) for d in ds)
            return False
        for c in f.calls():
            g = P.resolve_call(c, f)
            if g is None or not (c.callee.startswith("vnaproperty_") or c.callee.startswith("vnacal_property_")):
                continue
            fi = [i for i, p in enumerate(g.params) if p["name"] in ("format", "fmt")]
            if not fi:
                continue
            for i, a in enumerate(c.args()):
                if i <= fi[0]:
                    continue
                n += 1
                key = "R81|%s|%s|keyarg:%s#%d" % (f.file, f.name, c.callee, n)
                if raw(a):
                    R.violated(Finding("R81", props, f.file, f.name, "rawkey:%s" % c.callee,
                                       "`%s` splices the raw key `%s` from vnaproperty_keys() into a descriptor: a key that contains "
                                       "`.`, `[`, `=`, `#`, a backslash or a trailing blank addresses a different node; it must go "
                                       "through vnaproperty_quote_key first" % (c.text()[:60], a.text()[:20]), c.line))
                else:
                    R.ok(key, props)
    R.counts["descriptor_key_arguments"] = n
    if n < 2:
        raise AnalysisBroken("R81: only %d variadic descriptor arguments found in functions that enumerate keys" % n)
    R.check_floor()
    return R

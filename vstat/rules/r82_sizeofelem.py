"""R82 SIZEOF-ELEM (C03, C15): the element size in a memset/memcpy length is the size of what the destination points to.

"resize ... presents every newly exposed cell ... with its initial value" (C15); "touches only memory it owns" (C03).
`memset(&v[k], 0, n * sizeof(double))` on a `double complex *` clears half of the cells; with a larger type it writes
past them.  Instances: every memset / memcpy / memmove in the library whose length expression contains `sizeof(T)`
(a type, or an expression) and whose destination - casts to `void *` stripped - is a pointer to an arithmetic or
pointer type U (the element type of a vector).  sizeof(T) must equal sizeof(U) (compared by the sizes clang computed,
so `double complex` / `_Complex double` spellings and typedefs agree).  Destinations that point to structures (whole
object clears `sizeof(*p)`) are compared the same way when the operand is a type; other shapes take no part.
"""
from ..core import Finding, RuleResult
from ..facts import AnalysisBroken

PROPS = ("C03", "C15", "C05")
FUNCS = ("memset", "memcpy", "memmove")
SIZES = {"char": 1, "signed char": 1, "unsigned char": 1, "_Bool": 1, "bool": 1, "short": 2, "unsigned short": 2, "int": 4,
         "unsigned int": 4, "float": 4, "long": 8, "unsigned long": 8, "size_t": 8, "double": 8, "long long": 8,
         "_Complex double": 16, "double _Complex": 16, "_Complex float": 8}


def pointee_size(t):
    t = (t or "").replace("const ", "").replace("volatile ", "").strip()
    if not t.endswith("*"):
        return None
    u = t[:-1].strip()
    if u.endswith("*"):
        return 8
    return SIZES.get(u)


def run(P, tier="quick"):
    R = RuleResult("R82", "in every memset/memcpy/memmove with a `sizeof` in its length, that size equals the size of the destination's "
                   "element type", floor=20)
    n = 0
    for f in P.lib_functions():
        if f.body is None:
            continue
        for c in f.calls():
            if c.callee not in FUNCS or len(c.args()) < 3:
                continue
            so = [m for m in c.args()[2].walk() if m.k == "UnaryExprOrTypeTraitExpr" and m.d.get("trait") == "sizeof" and m.d.get("cv")]
            if len(so) != 1:
                continue
            x = c.args()[0]
            while x is not None and x.k in ("ImplicitCastExpr", "CStyleCastExpr", "ParenExpr"):
                x = x.kids[0]
            ps = pointee_size(x.ctype if x is not None else None)
            if ps is None:
                continue
            n += 1
            key = "R82|%s|%s|%s#%d" % (f.file, f.name, c.callee, n)
            if so[0].d["cv"] == ps:
                R.ok(key, PROPS)
            else:
                R.violated(Finding("R82", PROPS, f.file, f.name, "elemsize:%s" % x.text()[:24],
                                   "`%s` measures its length in units of sizeof(%s) = %d bytes but the destination `%s` points to "
                                   "elements of %d bytes (%s): the call covers %s of the elements it is meant to" %
                                   (c.text()[:50], so[0].d.get("argt") or "?", so[0].d["cv"], x.text()[:30], ps, x.ctype,
                                    "only a part" if so[0].d["cv"] < ps else "more than"), c.line))
    R.counts["sized_block_operations"] = n
    if n < 20:
        raise AnalysisBroken("R82: only %d memset/memcpy/memmove calls with a sizeof length and an element-typed destination found" % n)
    R.check_floor()
    return R

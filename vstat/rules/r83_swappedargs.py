"""R83 SWAPPED-DIMENSIONS (C15, C03): rows go to the `rows` parameter and columns to the `columns` parameter.

"type/dimension rules are enforced" (C15).  Many internal functions take (..., rows, columns, ...) pairs.  A call that
hands the object's column count to the parameter named `rows` and its row count to the parameter named `columns`
compiles, passes every test with square matrices, and applies the type's shape rule to the transposed shape
(a 3x1 object accepted as Zin, a 1x3 one refused).  Instances: every call of a library function that has one
parameter whose name ends in `rows` (or is `rows`) and one whose name ends in `columns`; the *kind* of each of the two
arguments is read from the last identifier in it (member or variable name containing `row` / `column`).  When both
arguments have a kind and both are crossed, the call is reported; arguments without a recognisable kind (constants,
sums, MIN/MAX) take no part.
"""
import re

from ..core import Finding, RuleResult
from ..facts import AnalysisBroken

PROPS = ("C15", "C03")


def kind_of_name(nm):
    nm = (nm or "").lower()
    r, c = "row" in nm, "col" in nm
    return "R" if (r and not c) else ("C" if (c and not r) else None)


def arg_kind(a):
    a = a.strip()
    names = [m.member for m in a.walk() if m.k == "MemberExpr"] + [m.refname for m in a.walk() if m.k == "DeclRefExpr"]
    ks = {kind_of_name(n) for n in names if kind_of_name(n) is not None}
    return ks.pop() if len(ks) == 1 else None


def run(P, tier="quick"):
    R = RuleResult("R83", "no call passes a column count to a `rows` parameter and a row count to the `columns` parameter", floor=20)
    n = 0
    for f in P.lib_functions():
        if f.body is None:
            continue
        for c in f.calls():
            g = P.resolve_call(c, f)
            if g is None or not g.params:
                continue
            ri = [i for i, p in enumerate(g.params) if re.search(r"(^|_)rows$", p["name"] or "")]
            ci = [i for i, p in enumerate(g.params) if re.search(r"(^|_)columns$", p["name"] or "")]
            if len(ri) != 1 or len(ci) != 1 or max(ri[0], ci[0]) >= len(c.args()):
                continue
            ka, kb = arg_kind(c.args()[ri[0]]), arg_kind(c.args()[ci[0]])
            if ka is None or kb is None:
                continue
            n += 1
            key = "R83|%s|%s|dims:%s#%d" % (f.file, f.name, c.callee, n)
            if ka == "C" and kb == "R":
                R.violated(Finding("R83", PROPS, f.file, f.name, "swapped:%s" % c.callee,
                                   "`%s` passes `%s` for the parameter %s and `%s` for %s of %s(): rows and columns are exchanged, "
                                   "which only shows for non-square shapes" %
                                   (c.text()[:60], c.args()[ri[0]].text()[:24], g.params[ri[0]]["name"], c.args()[ci[0]].text()[:24],
                                    g.params[ci[0]]["name"], c.callee), c.line))
            else:
                R.ok(key, PROPS)
    R.counts["row_column_calls"] = n
    if n < 20:
        raise AnalysisBroken("R83: only %d calls with recognisable (rows, columns) argument pairs found" % n)
    R.check_floor()
    return R

"""R85 XINDEX-OFFSET (C02, C18, C01): a per-system column index never subscripts an all-systems vector without the system offset.

The solvers keep the unknowns of all linear systems in one vector of length `x_length == vn_systems * (terms - 1)`
(the function asserts exactly that) and walk one system at a time; `vs_get_xindex()` returns a column index *within
the current system*.  Used bare as a subscript of an all-systems dimension it addresses the first system's unknown
whatever system is being processed - invisible for the single-system types, wrong Jacobian / residual rows for
UE14 and E12.  Instances, per function that asserts `L == ...vn_systems * ...`: the *all-systems dimensions* are the
pointer parameter immediately in front of L in the parameter list and every dimension of a local array declared
with extent L; the *per-system indices* are the locals initialised from vs_get_xindex().  Every subscript at an
all-systems dimension whose index mentions a per-system index must mention something else as well (the offset of
the system); a bare `A[xindex]` there is a finding.
"""
from ..core import Finding, RuleResult
from ..facts import AnalysisBroken

PROPS = ("C02", "C18", "C01")


def run(P, tier="quick"):
    R = RuleResult("R85", "no all-systems dimension is subscripted by a bare vs_get_xindex() value", floor=2)
    nsub = nfun = 0
    for f in P.lib_functions():
        if f.body is None:
            continue
        # L: asserted equal to something * vn_systems
        L = set()
        for m in f.walk():
            if m.k == "BinaryOperator" and m.op == "==":
                a, b = m.kids[0].strip(), m.kids[1].strip()
                for x, y in ((a, b), (b, a)):
                    if x.k == "DeclRefExpr" and (x.ctype or "").replace("const ", "") == "int" and \
                            any(q.k == "MemberExpr" and q.member == "vn_systems" for q in y.walk()) and \
                            any(q.k == "BinaryOperator" and q.op == "*" for q in [y] + list(y.walk())):
                        L.add(x.refdecl)
        if not L:
            continue
        xidx = set()
        for v in f.vardecls():
            if v.kids and any(c.k == "CallExpr" and c.callee == "vs_get_xindex" for c in v.kids[0].walk()):
                xidx.add(v.get("decl"))
        for m in f.walk():
            if m.k == "BinaryOperator" and m.op == "=" and m.kids[0].strip().k == "DeclRefExpr" and \
                    any(c.k == "CallExpr" and c.callee == "vs_get_xindex" for c in m.kids[1].walk()):
                xidx.add(m.kids[0].strip().refdecl)
        if not xidx:
            continue
        nfun += 1
        # all-systems dimensions: {array decl: set of dimension positions}
        dims = {}
        for i, p in enumerate(f.params):
            if i + 1 < len(f.params) and f.params[i + 1]["decl"] in L and "*" in (p.get("t") or ""):
                dims.setdefault(p["decl"], set()).add(0)
        for v in f.vardecls():
            ds = v.d.get("_dims") or []
            for pos, d in enumerate(ds):
                if hasattr(d, "k") and d.strip().k == "DeclRefExpr" and d.strip().refdecl in L:
                    dims.setdefault(v.get("decl"), set()).add(pos)
        for s in f.walk():
            if s.k != "ArraySubscriptExpr":
                continue
            # position of this subscript in the chain a[i][j]: count the subscripts below it
            base = s.kids[0].strip()
            pos_from_inner = 0
            b = base
            chain = [s]
            while b.k == "ArraySubscriptExpr":
                chain.append(b)
                b = b.kids[0].strip()
            if b.k != "DeclRefExpr" or b.refdecl not in dims:
                continue
            # outermost node of the chain is the last dimension: this node `s` has len(chain)-1 subscripts below it
            pos = len(chain) - 1
            if pos not in dims[b.refdecl]:
                continue
            idx = s.kids[1].strip()
            refs = [q for q in idx.walk() if q.k == "DeclRefExpr"]
            if not any(q.refdecl in xidx for q in refs):
                continue
            nsub += 1
            key = "R85|%s|%s|xindex:%s#%d" % (f.file, f.name, b.refname, nsub)
            if any(q.refdecl not in xidx for q in refs):
                R.ok(key, PROPS)
            else:
                R.violated(Finding("R85", PROPS, f.file, f.name, "bare-xindex:%s" % b.refname,
                                   "`%s` subscripts the all-systems vector %s (length vn_systems * unknowns) with the per-system "
                                   "column index alone: for every system but the first it addresses the wrong unknown (only UE14/E12 "
                                   "have more than one system)" % (s.text()[:50], b.refname), s.line))
    R.counts["functions"] = nfun
    R.counts["xindex_subscripts_of_all_systems_dimensions"] = nsub
    if nsub < 2:
        raise AnalysisBroken("R85: only %d subscripts of all-systems dimensions by a vs_get_xindex value found" % nsub)
    R.check_floor()
    return R

"""R86 YAML-PAIR (C14): the YAML exporter and importer of property trees agree on the three decisions libvna itself makes.

libyaml resolves no tags: whether a scalar is *null* or a string, whether a map key is a *descriptor* or a raw string
and which node kinds exist are decided by libvna's own code on both sides of the file.  C14 ("export then import
reproduces the same tree - node kinds, keys, nulls and every scalar") therefore needs, whatever the strings are:

  null-quoted   for every spelling s the importer takes for null when it is a plain scalar, the exporter writes the
                *string* s in a quoted style (else the scalar "null" comes back as a null node);
  null-style    the importer does not take a scalar written in that quoted style for null (else quoting is useless);
  null-literal  the text and style the exporter writes for a null node are taken for null by the importer;
  key-mode      the importer hands map keys to a descriptor-parsing call <=> the exporter writes the
                vnaproperty_quote_key form of the key (raw on one side and quoted on the other changes every key
                that contains `.`, `[`, `=`, `#`, `\\` or blanks);
  kind-export   the exporter's switch has a returning case for every node kind a tree can hold;
  kind-import   the importer's switch has a case for every libyaml node type the exporter creates.

The importer's null predicate and the exporter's style decision are *evaluated statically* on the finite set of
candidate spellings read from the predicate's own literals (a constant folder over strcmp / strchr / s[i] == c /
&& || ! / calls to single-return library predicates; nothing is executed).  A shape the folder does not understand
is ANALYSIS-BROKEN (exit 2), never a pass and never an alarm.  What is *not* decided: libyaml's emitter and scanner
(which scalars survive a given style byte for byte, line folding, non-printable characters), list order, and the
descriptor quoting grammar itself (C13, R81).
"""
from ..core import Finding, RuleResult
from ..facts import AnalysisBroken

PROPS = ("C14", "C07")

# libyaml's public enumerations (yaml.h; fixed API)
STYLES = {0: "YAML_ANY_SCALAR_STYLE", 1: "YAML_PLAIN_SCALAR_STYLE", 2: "YAML_SINGLE_QUOTED_SCALAR_STYLE",
          3: "YAML_DOUBLE_QUOTED_SCALAR_STYLE", 4: "YAML_LITERAL_SCALAR_STYLE", 5: "YAML_FOLDED_SCALAR_STYLE"}
QUOTED = (2, 3)
NODE_OF_ADDER = {"yaml_document_add_scalar": 1, "yaml_document_add_sequence": 2, "yaml_document_add_mapping": 3}
NODE_NAMES = {1: "YAML_SCALAR_NODE", 2: "YAML_SEQUENCE_NODE", 3: "YAML_MAPPING_NODE"}


class Unknown(Exception):
    pass


_NORET = object()
_BREAK = object()


class Folder:
    """constant folder for string predicates; env: decl id -> python value, plus 'style' for ...scalar.style and
    'subject' matched by text"""

    def __init__(self, P, f, env, subject_text=None):
        self.P, self.f, self.env, self.subject_text = P, f, env, subject_text

    def ev(self, e):
        e = e.strip()
        k = e.k
        if self.subject_text is not None and k != "CallExpr" and e.text() == self.subject_text:
            return self.env["subject"]
        if k in ("IntegerLiteral", "CharacterLiteral"):
            return e.val
        if k == "StringLiteral":
            return e.val
        if k == "ConstantExpr" and e.cv is not None:
            return e.cv
        if e.macro == "NULL" or k == "GNUNullExpr":
            return 0
        if k == "DeclRefExpr":
            if e.refdecl in self.env:
                return self.env[e.refdecl]
            if e.cv is not None:
                return e.cv
            raise Unknown("value of `%s`" % e.text())
        if k == "MemberExpr":
            if e.member == "style" and "style" in self.env:
                return self.env["style"]
            if e.member == "length" and "scalar" in e.text() and isinstance(self.env.get("subject"), str):
                return len(self.env["subject"])        # yaml_node_t.data.scalar.length of the scalar under test
            raise Unknown("member `%s`" % e.text())
        if k == "ArraySubscriptExpr":
            s, i = self.ev(e.kids[0]), self.ev(e.kids[1])
            if isinstance(s, str) and isinstance(i, int) and 0 <= i <= len(s):
                return ord(s[i]) if i < len(s) else 0
            raise Unknown("subscript `%s`" % e.text())
        if k == "UnaryOperator":
            if e.op == "!":
                return 0 if self.truth(self.ev(e.kids[0])) else 1
            if e.op == "*":
                s = self.ev(e.kids[0])
                if isinstance(s, str):
                    return ord(s[0]) if s else 0
            raise Unknown("operator `%s`" % e.text())
        if k == "BinaryOperator":
            if e.op == "&&":
                return 1 if self.truth(self.ev(e.kids[0])) and self.truth(self.ev(e.kids[1])) else 0
            if e.op == "||":
                return 1 if self.truth(self.ev(e.kids[0])) or self.truth(self.ev(e.kids[1])) else 0
            if e.op in ("==", "!="):
                a, b = self.ev(e.kids[0]), self.ev(e.kids[1])
                if isinstance(a, str) or isinstance(b, str):
                    # a string is a non-null pointer
                    if a in (None, 0) or b in (None, 0):
                        eq = False
                    else:
                        raise Unknown("pointer comparison `%s`" % e.text())
                else:
                    eq = (a == b)
                return 1 if (eq == (e.op == "==")) else 0
            raise Unknown("operator `%s`" % e.text())
        if k == "CallExpr":
            a = e.args()
            if e.callee == "strcmp" and len(a) == 2:
                x, y = self.ev(a[0]), self.ev(a[1])
                if isinstance(x, str) and isinstance(y, str):
                    return (x > y) - (x < y)
                raise Unknown("strcmp of non-constants")
            if e.callee == "strchr" and len(a) == 2:
                x, c = self.ev(a[0]), self.ev(a[1])
                if isinstance(x, str) and isinstance(c, int):
                    return x[x.index(chr(c)):] if (c != 0 and chr(c) in x) else ("" if c == 0 else 0)
                raise Unknown("strchr of non-constants")
            if e.callee == "strlen" and len(a) == 1:
                x = self.ev(a[0])
                if isinstance(x, str):
                    return len(x)
                raise Unknown("strlen of a non-constant")
            g = self.P.resolve_call(e, self.f)
            if g is not None and g.body is not None:
                env = {}
                for p, x in zip(g.params, a):
                    env[p["decl"]] = self.ev(x)
                if "style" in self.env:
                    env["style"] = self.env["style"]
                r = Folder(self.P, g, env).run_body(g.body)
                if r is not _NORET:
                    return r
            raise Unknown("call `%s`" % e.text()[:40])
        if k == "ConditionalOperator":
            return self.ev(e.kids[1]) if self.truth(self.ev(e.kids[0])) else self.ev(e.kids[2])
        raise Unknown("%s `%s`" % (k, e.text()[:40]))

    def run_body(self, n):
        """a predicate's body: compound / return / if / switch (with fall-through and break) / initialised scalar locals;
        anything else is Unknown.  Returns the returned value, _BREAK, or _NORET when control falls off the end"""
        if n is None:
            return _NORET
        k = n.k
        if k == "CompoundStmt":
            for c in n.kids:
                r = self.run_body(c)
                if r is not _NORET:
                    return r
            return _NORET
        if k == "ReturnStmt":
            return self.ev(n.kids[0]) if n.kids and n.kids[0] is not None else 0
        if k == "IfStmt":
            kids = [x for x in n.kids if x is not None]
            if self.truth(self.ev(kids[0])):
                return self.run_body(kids[1])
            return self.run_body(kids[2]) if len(kids) > 2 else _NORET
        if k == "BreakStmt":
            return _BREAK
        if k == "DeclStmt":
            for v in n.kids:
                if v is not None and v.k == "VarDecl" and v.kids and v.kids[0] is not None:
                    self.env[v.get("decl")] = self.ev(v.kids[0])
            return _NORET
        if k == "SwitchStmt":
            sel = self.ev(n.kids[0])
            body = n.kids[-1]
            items = [c for c in body.kids if c is not None] if body is not None and body.k == "CompoundStmt" else []
            start = dflt = None
            flat = []
            for it in items:
                t = it
                while t is not None and t.k in ("CaseStmt", "DefaultStmt"):
                    if t.k == "CaseStmt" and t.get("val") == sel and start is None:
                        start = len(flat)
                    if t.k == "DefaultStmt":
                        dflt = len(flat)
                    t = t.kids[-1] if t.kids else None
                flat.append(t)
            if start is None:
                start = dflt
            if start is None:
                return _NORET
            for t in flat[start:]:
                r = self.run_body(t)
                if r is _BREAK:
                    return _NORET
                if r is not _NORET:
                    return r
            return _NORET
        if k == "NullStmt":
            return _NORET
        raise Unknown("statement %s in a predicate" % k)

    @staticmethod
    def truth(v):
        if v is None:
            return False
        if isinstance(v, str):
            return True
        return v != 0


def _candidates(P, f, e, depth=0):
    """every string the predicate's own text can name: its string literals, its character literals as one-character
    strings, and the empty string"""
    out = {""}
    for n in e.walk():
        if n.k == "StringLiteral":
            out.add(n.val)
        elif n.k == "CharacterLiteral" and n.val:
            out.add(chr(n.val))
        elif n.k == "CaseStmt" and isinstance(n.get("val"), int) and 0 < n.get("val") < 256:
            out.add(chr(n.get("val")))
        elif n.k == "CallExpr" and depth < 3:
            g = P.resolve_call(n, f)
            if g is not None and g.body is not None:
                out |= _candidates(P, g, g.body, depth + 1)
    return out


def _assigns(node, decl):
    return [m for m in node.walk() if m.k == "BinaryOperator" and m.op == "=" and m.kids[0].strip().k == "DeclRefExpr"
            and m.kids[0].strip().refdecl == decl]


def _style_for(P, f, call, value_decl, style_arg, s):
    """the style argument of `call` when the exported string is s: the statements in front of the call in its
    enclosing compound are folded in order"""
    st = style_arg.strip()
    if st.k != "DeclRefExpr" or st.refkind != "local":
        return Folder(P, f, {value_decl: s}).ev(st)
    sd = st.refdecl
    stmt = call
    while stmt.parent is not None and stmt.parent.k != "CompoundStmt":
        stmt = stmt.parent
    comp = stmt.parent
    if comp is None:
        raise Unknown("style variable without an enclosing block")
    env = {value_decl: s}
    state = {"v": None}

    def run(n):
        if n is None:
            return
        if n.k == "CompoundStmt":
            for c in n.kids:
                run(c)
        elif n.k == "DeclStmt":
            for v in n.kids:
                if v is not None and v.k == "VarDecl" and v.get("decl") == sd and v.kids:
                    state["v"] = Folder(P, f, env).ev(v.kids[0])
        elif n.k == "IfStmt":
            if not _assigns(n, sd):
                return
            c = Folder.truth(Folder(P, f, env).ev(n.kids[0]))
            branches = [b for b in n.kids[1:] if b is not None]
            if c:
                run(branches[0])
            elif len(branches) > 1:
                run(branches[1])
        elif n.k == "BinaryOperator" and n.op == "=" and n.kids[0].strip().k == "DeclRefExpr" and n.kids[0].strip().refdecl == sd:
            state["v"] = Folder(P, f, env).ev(n.kids[1])
        elif _assigns(n, sd):
            raise Unknown("style assigned inside %s" % n.k)
    for c in comp.kids:
        if c is stmt:
            break
        run(c)
    if state["v"] is None:
        raise Unknown("style variable never assigned a constant")
    return state["v"]


def _cases(sw):
    """case value -> first statement list (labels stacked on one body share it)"""
    out = {}
    body = sw.kids[-1]
    items = [c for c in body.kids if c is not None] if body is not None and body.k == "CompoundStmt" else []
    cur = []
    for it in items:
        labels = []
        t = it
        while t is not None and t.k in ("CaseStmt", "DefaultStmt"):
            labels.append(t)
            t = t.kids[-1] if t.kids else None
        if labels:
            cur = [t] if t is not None else []
            for l in labels:
                out[l.get("val") if l.k == "CaseStmt" else "default"] = cur
        else:
            cur.append(it)
    return out


def _returns_value(stmts):
    for s in stmts:
        for m in s.walk():
            if m.k == "ReturnStmt" and m.kids and m.kids[0] is not None:
                v = m.kids[0].strip()
                if not (v.k == "UnaryOperator" and v.op == "-"):
                    return True
    return False


def run(P, tier="quick"):
    R = RuleResult("R86", "the YAML exporter quotes exactly what the importer would take for null, writes nulls the importer "
                   "recognises, writes keys in the form the importer parses, and both switches cover every node kind", floor=8)
    exp = P.func("_vnaproperty_yaml_export", "vnaproperty.c")
    imp0 = P.func("_vnaproperty_yaml_import", "vnaproperty.c")
    if exp is None or imp0 is None or exp.body is None or imp0.body is None:
        raise AnalysisBroken("R86: _vnaproperty_yaml_export / _vnaproperty_yaml_import not found in vnaproperty.c")
    # the importer proper: the function (reachable from the entry point within the file) that switches on node->type
    imp = None
    seen, work = set(), [imp0]
    while work:
        g = work.pop()
        if g.key() in seen or g.body is None:
            continue
        seen.add(g.key())
        if any(n.k == "SwitchStmt" and n.kids[0].strip().k == "MemberExpr" and n.kids[0].strip().member == "type" for n in g.walk()):
            imp = g
            break
        for c in g.calls():
            h = P.resolve_call(c, g)
            if h is not None and h.file == g.file:
                work.append(h)
    if imp is None:
        raise AnalysisBroken("R86: no switch on the libyaml node type reachable from _vnaproperty_yaml_import")

    def keykind_early(v):
        """is the local a map key (result of vnaproperty_quote_key)?  such a call writes a key, not a scalar value"""
        for m in exp.walk():
            rhs = None
            if m.k == "BinaryOperator" and m.op == "=" and m.kids[0].strip().k == "DeclRefExpr" and m.kids[0].strip().refdecl == v.refdecl:
                rhs = m.kids[1].strip()
            elif m.k == "VarDecl" and m.get("decl") == v.refdecl and m.kids and m.kids[0] is not None:
                rhs = m.kids[0].strip()
            if rhs is not None and rhs.k == "CallExpr" and rhs.callee == "vnaproperty_quote_key":
                return True
        return False

    try:
        # ---- importer's null decision: an if whose condition reads ...scalar.value and whose branch stores nothing
        nulls = []
        for n in imp.walk():
            if n.k != "IfStmt":
                continue
            cond = n.kids[0]
            subj = [m for m in cond.walk() if m.k == "MemberExpr" and m.member == "value" and "scalar" in m.text()]
            if not subj:
                continue
            then = n.kids[1]
            if then is None or any(c.callee and c.callee.startswith("vnaproperty_") for c in then.calls()):
                continue
            if not any(m.k == "ReturnStmt" for m in then.walk()):
                continue
            nulls.append((n, subj[0]))
        if len(nulls) != 1:
            raise AnalysisBroken("R86: %d candidate null decisions in %s (expected one `if (<test of scalar.value>) return`)" % (len(nulls), imp.name))
        nif, subj = nulls[0]
        # the subject as the predicate sees it: the outermost cast-only wrapper of the member expression
        top = subj
        while top.parent is not None and top.parent.k in ("ImplicitCastExpr", "CStyleCastExpr", "ParenExpr"):
            top = top.parent
        subject_text = top.strip().text()
        cands = sorted(_candidates(P, imp, nif.kids[0]))

        def imp_null(s, style):
            return Folder.truth(Folder(P, imp, {"subject": s, "style": style}, subject_text).ev(nif.kids[0]))
        L_imp = [s for s in cands if imp_null(s, 1)]
        R.counts["null_spelling_candidates"] = len(cands)
        R.counts["null_spellings_importer"] = len(L_imp)
        if not L_imp:
            raise AnalysisBroken("R86: the importer's null test accepts none of its own literals %r as a plain scalar" % cands)

        # ---- exporter's two scalar emitters: yaml_document_add_scalar itself, or a helper of the same file that hands two of
        # its own parameters on as the text and the style (a maintainer may well wrap the call and its error report)
        def emitter_sig(c):
            if c.callee == "yaml_document_add_scalar" and len(c.args()) >= 5:
                return (2, 4)
            g = P.resolve_call(c, exp)
            if g is None or g.body is None or g.file != exp.file or g.name == exp.name:
                return None
            for ic in g.calls("yaml_document_add_scalar"):
                a = ic.args()
                if len(a) >= 5 and a[2].strip().k == "DeclRefExpr" and a[4].strip().k == "DeclRefExpr":
                    pv = [i for i, p_ in enumerate(g.params) if p_["decl"] == a[2].strip().refdecl]
                    ps = [i for i, p_ in enumerate(g.params) if p_["decl"] == a[4].strip().refdecl]
                    if pv and ps and max(pv[0], ps[0]) < len(c.args()):
                        return (pv[0], ps[0])
            return None
        null_call = scalar_call = None
        value_decl = None
        for c in exp.calls():
            sig = emitter_sig(c)
            if sig is None:
                continue
            a = c.args()
            v = a[sig[0]].strip()
            if v.k == "DeclRefExpr" and v.refkind in ("local", "staticlocal"):
                init = [d for d in exp.walk() if d.k == "VarDecl" and d.get("decl") == v.refdecl]
                if init and init[0].kids and init[0].kids[0].strip().k == "StringLiteral" and not _assigns(exp.body, v.refdecl):
                    null_call = (c, init[0].kids[0].strip().val, a[sig[1]])
                    continue
                if keykind_early(v):
                    continue
                scalar_call = (c, a[sig[1]])
                value_decl = v.refdecl
            elif v.k == "StringLiteral":
                null_call = (c, v.val, a[sig[1]])
        if null_call is None or scalar_call is None:
            raise AnalysisBroken("R86: the exporter's null and string yaml_document_add_scalar calls were not both found")

        # null-quoted / null-style
        for s in L_imp:
            st = _style_for(P, exp, scalar_call[0], value_decl, scalar_call[1], s)
            key = "R86|vnaproperty.c|%s|null-quoted:%s" % (exp.name, s)
            if st not in QUOTED:
                R.violated(Finding("R86", PROPS, exp.file, exp.name, "null-quoted:%s" % s,
                                   "the importer (%s, line %d) takes the plain scalar `%s` for a null node, but the exporter writes "
                                   "the string \"%s\" in %s: a scalar property with that text comes back as null"
                                   % (imp.name, nif.line, s, s, STYLES.get(st, st)), scalar_call[0].line))
            else:
                R.ok(key, PROPS)
                key2 = "R86|vnaproperty.c|%s|null-style:%s" % (imp.name, s)
                if imp_null(s, st):
                    R.violated(Finding("R86", PROPS, imp.file, imp.name, "null-style:%s" % s,
                                       "the importer takes the scalar `%s` for null even in %s, the style the exporter uses to mark "
                                       "it as a string: the exported string \"%s\" comes back as null" % (s, STYLES[st], s), nif.line))
                else:
                    R.ok(key2, PROPS)
        # null-literal
        c, lit, sty = null_call
        stv = Folder(P, exp, {}).ev(sty)
        key = "R86|vnaproperty.c|%s|null-literal" % exp.name
        if stv not in (0, 1) or not imp_null(lit, 1):
            R.violated(Finding("R86", PROPS, exp.file, exp.name, "null-literal",
                               "a null node is exported as `%s` in %s, which the importer's null test (line %d) does not accept: "
                               "null nodes come back as strings" % (lit, STYLES.get(stv, stv), nif.line), c.line))
        else:
            R.ok(key, PROPS)
    except Unknown as u:
        raise AnalysisBroken("R86: null/style decision has a shape the constant folder does not understand: %s" % u)

    # ---- key mode
    imp_mode = None
    for c in imp.calls():
        if not (c.callee or "").startswith("vnaproperty_"):
            continue
        g = P.resolve_call(c, imp)
        if g is None:
            continue
        fi = [i for i, p in enumerate(g.params) if p["name"] in ("format", "fmt")]
        if not fi:
            continue
        for i, a in enumerate(c.args()):
            if i > fi[0] and "scalar.value" in a.text() and "key" in a.text():
                fmt = c.args()[fi[0]].strip()
                imp_mode = ("descriptor", c, fmt.val if fmt.k == "StringLiteral" else None)
    if imp_mode is None:
        raise AnalysisBroken("R86: the importer's map-key call (key->data.scalar.value as a descriptor argument) was not found")
    quoted_locals, raw_arrays = set(), set()
    for m in exp.walk():
        tgt = rhs = None
        if m.k == "BinaryOperator" and m.op == "=" and m.kids[0].strip().k == "DeclRefExpr":
            tgt, rhs = m.kids[0].strip().refdecl, m.kids[1].strip()
        elif m.k == "VarDecl" and m.kids and m.kids[0] is not None:
            tgt, rhs = m.get("decl"), m.kids[0].strip()
        if rhs is not None and rhs.k == "CallExpr":
            if rhs.callee == "vnaproperty_quote_key":
                quoted_locals.add(tgt)
            elif rhs.callee == "vnaproperty_keys":
                raw_arrays.add(tgt)
    changed = True
    while changed:
        changed = False
        for m in exp.walk():
            if m.k == "VarDecl" and m.kids and m.kids[0] is not None and m.kids[0].strip().k == "DeclRefExpr" and \
                    m.kids[0].strip().refdecl in raw_arrays and m.get("decl") not in raw_arrays:
                raw_arrays.add(m.get("decl"))
                changed = True

    def keykind(a):
        a = a.strip()
        if a.k == "DeclRefExpr" and a.refdecl in quoted_locals:
            return "quoted"
        if a.k == "UnaryOperator" and a.op == "*" and a.kids[0].strip().k == "DeclRefExpr" and a.kids[0].strip().refdecl in raw_arrays:
            return "raw"
        if a.k == "ArraySubscriptExpr" and a.kids[0].strip().k == "DeclRefExpr" and a.kids[0].strip().refdecl in raw_arrays:
            return "raw"
        return None

    def reaches_pair(g, depth=0):
        if g is None or g.body is None or depth > 3:
            return False
        if g.calls("yaml_document_append_mapping_pair"):
            return True
        return any(reaches_pair(P.resolve_call(c, g), depth + 1) for c in g.calls() if P.resolve_call(c, g) is not None and P.resolve_call(c, g).file == g.file and P.resolve_call(c, g).name != g.name)
    nkey = 0
    for c in exp.calls():
        kinds = [(a, keykind(a)) for a in c.args()]
        kinds = [(a, k) for a, k in kinds if k]
        if not kinds:
            continue
        g = P.resolve_call(c, exp)
        emits = (c.callee == "yaml_document_add_scalar") or (g is not None and g.name != exp.name and reaches_pair(g))
        if not emits:
            continue
        for a, k in kinds:
            nkey += 1
            want = "quoted" if imp_mode[0] == "descriptor" else "raw"
            if k != want:
                R.violated(Finding("R86", PROPS, exp.file, exp.name, "key-mode:%s" % c.callee,
                                   "`%s` writes the %s key `%s` into the YAML map, but the importer (%s, line %d) parses map keys as "
                                   "descriptors: a key that contains `.`, `[`, `=`, `#`, a backslash or blanks comes back as a different key"
                                   % (c.text()[:50], k, a.text()[:20], imp.name, imp_mode[1].line), c.line))
            else:
                R.ok("R86|vnaproperty.c|%s|key-mode:%s#%d" % (exp.name, c.callee, nkey), PROPS)
    if nkey == 0:
        raise AnalysisBroken("R86: no call in the exporter writes a map key (raw or quoted) into the document")
    R.counts["key_emitters"] = nkey

    # ---- kinds
    kinds_tree = {}
    for f in P.lib_functions():
        if f.body is None or f.file != "vnaproperty.c":
            continue
        for m in f.walk():
            if m.k == "BinaryOperator" and m.op == "=" and m.kids[0].strip().k == "MemberExpr" and m.kids[0].strip().member == "vpr_type":
                v = m.kids[1].strip()
                if v.cv is not None and v.cv != -1:
                    kinds_tree[v.cv] = v.text()
    if len(kinds_tree) < 3:
        raise AnalysisBroken("R86: fewer than three node kinds are ever stored in vpr_type (%r)" % kinds_tree)
    esw = [n for n in exp.walk() if n.k == "SwitchStmt" and n.kids[0].strip().k == "MemberExpr" and n.kids[0].strip().member == "vpr_type"]
    if len(esw) != 1:
        raise AnalysisBroken("R86: the exporter's switch on vpr_type was not found")
    ecases = _cases(esw[0])
    for v, name in sorted(kinds_tree.items()):
        key = "R86|vnaproperty.c|%s|kind-export:%s" % (exp.name, name)
        if v in ecases and _returns_value(ecases[v]):
            R.ok(key, PROPS)
        else:
            R.violated(Finding("R86", PROPS, exp.file, exp.name, "kind-export:%s" % name,
                               "the exporter's switch has no case that returns a node for %s, a kind the tree can hold" % name, esw[0].line))
    if not any(n.k == "IfStmt" and n.kids[0].text().replace(" ", "").startswith("root==") for n in exp.walk()):
        R.violated(Finding("R86", PROPS, exp.file, exp.name, "kind-export:NULL",
                           "the exporter has no branch for a NULL (null) node", exp.body.line))
    else:
        R.ok("R86|vnaproperty.c|%s|kind-export:NULL" % exp.name, PROPS)
    isw = [n for n in imp.walk() if n.k == "SwitchStmt" and n.kids[0].strip().k == "MemberExpr" and n.kids[0].strip().member == "type"][0]
    icases = _cases(isw)
    made = set()
    seen_f, work_f = set(), [exp]
    while work_f:
        g = work_f.pop()
        if g.key() in seen_f or g.body is None:
            continue
        seen_f.add(g.key())
        for c in g.calls():
            if c.callee in NODE_OF_ADDER:
                made.add(NODE_OF_ADDER[c.callee])
            else:
                h = P.resolve_call(c, g)
                if h is not None and h.file == exp.file and len(seen_f) < 12:
                    work_f.append(h)
    made = sorted(made)
    if len(made) < 3:
        raise AnalysisBroken("R86: the exporter creates fewer than three libyaml node types")
    for v in made:
        key = "R86|vnaproperty.c|%s|kind-import:%s" % (imp.name, NODE_NAMES[v])
        body = icases.get(v)
        if body and not all(s.k == "CallExpr" and s.callee == "abort" for s in body):
            R.ok(key, PROPS)
        else:
            R.violated(Finding("R86", PROPS, imp.file, imp.name, "kind-import:%s" % NODE_NAMES[v],
                               "the importer's switch has no case for %s, which the exporter creates" % NODE_NAMES[v], isw.line))
    R.check_floor()
    return R

"""R87 PER-ENTRY-RESET (C09, C07): a local presence table that is filled by an inner loop and consumed once per
iteration of an outer loop is cleared inside that outer loop.

The loaders collect the parts of one file entry in a local table of node pointers (`matrices[]` in parse_data of
vnacal_load.c: the inner loop over the entry's key/value pairs stores `table[ID] = node`), then consume the table
for that entry (required-part mask, `table[ID]` handed to the vector parsers).  "Rejected cleanly or loaded whole"
(C09) needs the table to describe *this* entry only: if it is cleared once in front of the outer loop, a part
missing from the second entry is silently taken from the first one.

Shape decided (AST nesting, every library function): local array A of pointers; S = innermost loop that contains a
store `A[..] = ..`; an enclosing loop L of S in which A is also read *outside* S (consumed per iteration of L).
Then a clear of A (memset(A, 0, ..), or stores of NULL) must lie inside L and outside S.  A table that is filled and tested inside one
loop only (duplicate detection while accumulating) is not of this shape and is not judged.
"""
from ..core import Finding, RuleResult
from ..util import is_null

PROPS = ("C09", "C07")
LOOPS = ("ForStmt", "WhileStmt", "DoStmt")


def _loops_of(n):
    out = []
    for a in n.ancestors():
        if a.k in LOOPS:
            out.append(a)
    return out          # innermost first


def run(P, tier="quick"):
    R = RuleResult("R87", "a local pointer table filled by an inner loop and consumed per iteration of an outer loop is cleared "
                   "inside the outer loop", floor=1)
    n = 0
    for f in P.lib_functions():
        if f.body is None:
            continue
        arrays = {v.get("decl"): v for v in f.vardecls() if (v.ctype or v.type or "").rstrip().endswith("]") and "*" in (v.ctype or v.type or "")}
        if not arrays:
            continue
        for decl, v in arrays.items():
            stores, reads, clears = [], [], []
            for m in f.walk():
                if m.k == "ArraySubscriptExpr" and m.kids[0].strip().k == "DeclRefExpr" and m.kids[0].strip().refdecl == decl:
                    par = m.parent
                    while par is not None and par.k in ("ParenExpr",):
                        par = par.parent
                    if par is not None and par.k == "BinaryOperator" and par.op == "=" and par.kids[0].strip() is m:
                        if is_null(par.kids[1].strip()) or par.kids[1].strip().cv == 0:
                            clears.append(m)        # `for (..) table[i] = NULL;` clears like memset does
                        else:
                            stores.append(m)
                    else:
                        reads.append(m)
                elif m.k == "CallExpr" and m.callee == "memset" and m.args() and m.args()[0].strip().k == "DeclRefExpr" and \
                        m.args()[0].strip().refdecl == decl:
                    clears.append(m)
            if not stores or not reads or not clears:
                continue
            judged = set()
            for s in stores:
                ls = _loops_of(s)
                if len(ls) < 2:
                    continue
                S = ls[0]
                for L in ls[1:]:
                    outside = [r for r in reads if L.is_ancestor_of(r) and not S.is_ancestor_of(r)]
                    if not outside or (L.id, decl) in judged:
                        continue
                    judged.add((L.id, decl))
                    n += 1
                    name = v.get("name")
                    key = "R87|%s|%s|per-entry-reset:%s" % (f.file, f.name, name)
                    inside = [c for c in clears if L.is_ancestor_of(c) and not S.is_ancestor_of(c)]
                    if inside:
                        R.ok(key, PROPS)
                    else:
                        R.violated(Finding("R87", PROPS, f.file, f.name, "per-entry-reset:%s" % name,
                                           "`%s[]` is filled by the loop at line %d and consumed at line %d once per iteration of the loop at "
                                           "line %d, but it is only cleared outside that loop (line %d): a part missing from a later entry is "
                                           "silently taken from an earlier one" % (name, S.line, outside[0].line, L.line, clears[0].line), L.line))
                    break
    R.counts["per_entry_tables"] = n
    R.check_floor()
    return R

"""R88 REPLACE-ON-SUCCESS (C11, C20): the old value of a field that a function replaces is released only when the
replacement exists.

"A failed call leaves the object as it was" (C11), "a failed solve can be retried / the earlier result stays usable"
(C20).  Shape: a function releases `O->f` (free or a library destructor; O an object the caller keeps) and, on its
success path, stores a new non-NULL value in `O->f`.  Then no path may run from the release to a *failure return*
(the function's failure value) without that store: on such a path the caller gets a failure and has lost what the
object held before - consistent (the field is NULL), but not unchanged.  R41 covers the worse variant where the
field still points at the released object.  Path-sensitive over the CFG (state = released-and-not-yet-replaced
fields); functions that never store a new value into the released field (teardown, reset-to-empty) are not of this
shape and are not judged.  Two exclusions, both by construction and not by name: a release from which no success
return is reachable is error clean-up (the failure is certain, what is released is the half-built replacement); and
a path on which an allocation's failure edge was taken is left to R19b (C12), which excepts "reset to a consistent
empty state" - this rule is about failures of the work itself (MATH, USAGE, SYNTAX).
"""
import re
from ..core import Finding, RuleResult
from ..flow import Engine, Tracker, TooManyStates
from ..util import base_var, is_null
from ..failflow import failure_value_kind, compute_fail_summaries, EXT_FAIL_NULL
from .r41_dangling import destructors, path_of
from .r18_atomic import LATE_FAILURE_FILES

PROPS = ("C11", "C20")


class RepTracker(Tracker):
    def __init__(self, fn, dtors, kept, replaced, kind):
        self.fn, self.dtors, self.kept, self.replaced, self.kind = fn, dtors, kept, replaced, kind
        self.bad = {}
        self.sites = set()

    def initial(self, fn):
        return frozenset()

    def branch(self, st, cond, truth, ctx):
        """the failure edge of an allocation marks the path: an ENOMEM failure that leaves a consistent empty field is
        R19b's business (and excepted there); this rule is about failures of the *work* (MATH, USAGE, SYNTAX)"""
        c = cond.strip()
        while c.k == "UnaryOperator" and c.op == "!":
            truth = not truth
            c = c.kids[0].strip()
        if c.k == "BinaryOperator" and c.op in ("==", "!="):
            a, b = c.kids[0].strip(), c.kids[1].strip()
            while a.k == "BinaryOperator" and a.op == "=":
                a = a.kids[1].strip()
            bv = b.cv if b.cv is not None else (0 if is_null(b) else None)
            if a.k == "CallExpr" and bv is not None and ((c.op == "==") == truth):
                if a.callee in EXT_FAIL_NULL and bv == 0:
                    return st | {("$v", "$allocfail", 1)}
                g = self.P.resolve_call(a, self.fn)
                if g is not None:
                    gk = failure_value_kind(g)
                    if ((gk == "minus1" and bv == -1) or (gk == "null" and bv == 0)) and self.sysfail(g) and not self.workfail(g):
                        return st | {("$v", "$allocfail", 1)}
        return st

    @staticmethod
    def _setv(st, decl, v):
        st = frozenset(x for x in st if not (x[0] == "$v" and x[1] == decl))
        return st | {("$v", decl, v)} if v is not None else st

    def step(self, st, n, ctx):
        # constants held by scalar locals (`int rc = -1; ... rc = 0; out: return rc;`)
        if n.k == "VarDecl" and n.kids and n.kids[0] is not None and "*" not in (n.ctype or ""):
            return [self._setv(st, n.get("decl"), n.kids[0].strip().cv)]
        if n.k == "BinaryOperator" and n.op == "=" and n.kids[0].strip().k == "DeclRefExpr" and "*" not in (n.kids[0].strip().ctype or ""):
            return [self._setv(st, n.kids[0].strip().refdecl, n.kids[1].strip().cv)]
        if n.k == "CallExpr" and n.callee in self.dtors and n.args():
            a = n.args()[0].strip()
            if a.k == "MemberExpr":
                b = base_var(a)
                t = path_of(a)
                if b is not None and b.refdecl in self.kept and t in self.replaced and n.id not in self.cleanup:
                    self.sites.add(n.id)
                    return [st | {(t, n.id)}]
            return [st]
        if n.k == "BinaryOperator" and n.op == "=":
            l = n.kids[0].strip()
            if l.k == "MemberExpr" and any(x[0] != "$v" for x in st):
                t = path_of(l)
                r = n.kids[1].strip()
                if not is_null(r) and r.cv != 0:
                    return [frozenset(x for x in st if x[0] == "$v" or x[0] != t)]
            return [st]
        if n.k == "ReturnStmt" and st and n.kids and n.kids[0] is not None:
            e = n.kids[0].strip()
            v = e.cv if e.cv is not None else (0 if is_null(e) else None)
            if v is None and e.k == "DeclRefExpr":
                for x in st:
                    if x[0] == "$v" and x[1] == e.refdecl:
                        v = x[2]
            failing = (self.kind == "minus1" and v == -1) or (self.kind == "null" and v == 0)
            if failing and ("$v", "$allocfail", 1) not in st:
                for x in st:
                    if x[0] != "$v":
                        self.bad.setdefault(x[0], (n, x[1], ctx.trace()))
        return [st]


def run(P, tier="quick"):
    R = RuleResult("R88", "a field that the function replaces on success is not released on a path that can still end in the "
                   "function's failure return", floor=3)
    dtors = destructors(P)
    S = compute_fail_summaries(P)
    memo, memo2 = {}, {}

    def sysfail(g, depth=0):
        """can g fail because an allocation failed?"""
        k = g.key()
        if k in memo:
            return memo[k]
        memo[k] = False
        s = S.get(k)
        r = False
        if s is not None:
            for (val, nrep, cats, failed, flags, node, trace) in s.returns:
                if val[0] != "fail":
                    continue
                if any(x in EXT_FAIL_NULL for x in failed):
                    r = True
                for h in failed:
                    hf = P.functions.get(h)
                    if hf is not None and depth < 6 and sysfail(hf, depth + 1):
                        r = True
        memo[k] = r
        return r

    def workfail(g, depth=0):
        """can g fail for another reason than a system failure (it reports MATH / USAGE / SYNTAX / VERSION itself or
        through a callee)?"""
        k = g.key()
        if k in memo2:
            return memo2[k]
        memo2[k] = False
        s = S.get(k)
        r = False
        if s is not None:
            for (val, nrep, cats, failed, flags, node, trace) in s.returns:
                if val[0] != "fail":
                    continue
                if any(c.split(":")[-1] in ("VNAERR_MATH", "VNAERR_USAGE", "VNAERR_SYNTAX", "VNAERR_VERSION") for c in cats):
                    r = True
                for h in failed:
                    hf = P.functions.get(h)
                    if hf is not None and depth < 6 and workfail(hf, depth + 1):
                        r = True
        memo2[k] = r
        return r
    n = 0
    for f in P.lib_functions():
        if f.cfg is None or f.body is None:
            continue
        kind = failure_value_kind(f)
        if kind not in ("minus1", "null") or f.file in LATE_FAILURE_FILES:
            continue        # (loaders build the object while parsing: their failures are judged by R18's "late failure" clause)
        rel = [c for c in f.calls() if c.callee in dtors and c.args() and c.args()[0].strip().k == "MemberExpr"]
        if not rel:
            continue
        replaced = set()
        for m in f.walk():
            if m.k == "BinaryOperator" and m.op == "=" and m.kids[0].strip().k == "MemberExpr":
                r = m.kids[1].strip()
                if not is_null(r) and r.cv != 0:
                    replaced.add(path_of(m.kids[0].strip()))
        if not any(path_of(c.args()[0].strip()) in replaced for c in rel):
            continue
        # a release from which no success return can be reached is part of the error clean-up: the failure is already
        # certain there, and what is released is the half-built replacement (vnacal_save's `error:` label)

        def is_fail_ret(m):
            if not (m.kids and m.kids[0] is not None):
                return False
            e = m.kids[0].strip()
            v = e.cv if e.cv is not None else (0 if is_null(e) else None)
            return (kind == "minus1" and v == -1) or (kind == "null" and v == 0)
        cleanup = set()
        for c in rel:
            b = f.cfg.block_of(c)
            if b is None:
                continue
            blocks = {b} | set(f.cfg.reachable_from(b))
            rets = [el for x in blocks for el in f.cfg.blocks[x].elems if el.k == "ReturnStmt"]
            if rets and all(is_fail_ret(m) for m in rets):
                cleanup.add(c.id)
        kept = {p["decl"] for p in f.params if "*" in p.get("ct", p["t"])}
        changed = True
        while changed:
            changed = False
            for v in f.vardecls():
                if v.get("decl") not in kept and v.kids and "*" in (v.ctype or ""):
                    r = v.kids[0].strip()
                    if r.k == "CallExpr":
                        continue
                    b = base_var(r) if r.k in ("MemberExpr", "DeclRefExpr", "UnaryOperator") else None
                    if b is not None and b.refdecl in kept and r.k != "ArraySubscriptExpr":
                        kept.add(v.get("decl"))
                        changed = True
        tr = RepTracker(f, dtors, kept, replaced, kind)
        tr.cleanup = cleanup
        tr.P, tr.sysfail, tr.workfail = P, sysfail, workfail
        try:
            Engine(f, tr, 20000).run()
        except TooManyStates:
            R.unclassified("R88|%s|%s|states" % (f.file, f.name), "too many states", PROPS)
            continue
        if not tr.sites:
            continue
        n += len(tr.sites)
        if not tr.bad:
            R.ok("R88|%s|%s" % (f.file, f.name), PROPS)
        for t, (ret, sid, trace) in sorted(tr.bad.items()):
            rel_n = f.by_id.get(sid)
            R.violated(Finding("R88", PROPS, f.file, f.name, "released-early:" + t,
                               "%s is released at line %d, but the function can still fail and return at line %d before it stores the "
                               "replacement: the caller gets a failure and the object has lost what it held" %
                               (t, rel_n.line if rel_n is not None else 0, ret.line), ret.line, trace))
    R.counts["replace_release_sites"] = n
    R.check_floor()
    return R

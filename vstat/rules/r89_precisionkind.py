"""R89 PRECISION-KIND (C07): complex values of a calibration file are written with the data precision.

vnacal_set_fprecision / vnacal_set_dprecision (public API) each store into one field of the vnacal_t; "frequencies
round-trip to the frequency precision, error terms and the reference impedance to the data precision, bit-exact at
VNACAL_MAX_PRECISION" (C07).  Frequencies are real.  So every call in the library that hands a `double complex`
value and a precision to an emitter (a callee with a parameter named `precision` and a complex-typed parameter) must
pass the field the *dprecision* setter writes, and every such call for a real value taken from a frequency vector
the field the *fprecision* setter writes.  The two fields are found through the setters, not by name.  With the
defaults (7 and 6 digits) the wrong field costs or adds one digit and no test notices; with fprecision < dprecision
the reference impedance is truncated.
"""
from ..core import Finding, RuleResult
from ..facts import AnalysisBroken
from ..canon import Canon

PROPS = ("C07",)


def _field_of_setter(P, name):
    f = P.func(name)
    if f is None or f.body is None:
        raise AnalysisBroken("R89: %s not found" % name)
    pi = [p["decl"] for p in f.params if p["name"] == "precision"]
    out = set()
    for m in f.walk():
        if m.k == "BinaryOperator" and m.op == "=" and m.kids[0].strip().k == "MemberExpr":
            if not pi or any(x.k == "DeclRefExpr" and x.refdecl in pi for x in m.kids[1].walk()) or True:
                out.add(m.kids[0].strip().member)
    if len(out) != 1:
        raise AnalysisBroken("R89: %s stores into %d fields (%s), expected one" % (name, len(out), sorted(out)))
    return out.pop()


def run(P, tier="quick"):
    R = RuleResult("R89", "complex values are emitted with the field vnacal_set_dprecision writes, frequencies with the field "
                   "vnacal_set_fprecision writes", floor=3)
    ff = _field_of_setter(P, "vnacal_set_fprecision")
    df = _field_of_setter(P, "vnacal_set_dprecision")
    n = 0
    for f in P.lib_functions():
        if f.body is None:
            continue
        for c in f.calls():
            g = P.resolve_call(c, f)
            if g is None or g.body is None:
                continue
            pi = [i for i, p in enumerate(g.params) if p["name"] == "precision"]
            if not pi or pi[0] >= len(c.args()):
                continue
            a = c.args()[pi[0]].strip()
            if a.k == "DeclRefExpr" and a.refkind == "local":
                # `const int precision = vcp->vc_dprecision;` hoisted out of the loop
                d = Canon(f).single_def(a.refdecl)
                if d is not None:
                    a = d.strip()
            if a.k != "MemberExpr" or a.member not in (ff, df):
                continue
            cplx = [i for i, p in enumerate(g.params) if "complex" in ((p.get("ct") or "") + (p.get("t") or "")).lower()]
            real = [i for i, p in enumerate(g.params) if (p.get("t") or "") == "double"]
            n += 1
            key = "R89|%s|%s|precision-kind:%s#%d" % (f.file, f.name, c.callee, n)
            if cplx:
                if a.member != df:
                    R.violated(Finding("R89", PROPS, f.file, f.name, "precision-kind:%s" % c.callee,
                                       "`%s` writes a complex value with `%s`, the field vnacal_set_fprecision sets: error terms / "
                                       "reference impedances follow the frequency precision instead of the data precision"
                                       % (c.text()[:60], a.text()), c.line))
                else:
                    R.ok(key, PROPS)
            elif real and real[0] < len(c.args()) and "frequency" in c.args()[real[0]].text():
                if a.member != ff:
                    R.violated(Finding("R89", PROPS, f.file, f.name, "precision-kind:%s" % c.callee,
                                       "`%s` writes a frequency with `%s`, the field vnacal_set_dprecision sets" % (c.text()[:60], a.text()), c.line))
                else:
                    R.ok(key, PROPS)
            else:
                R.unclassified(key, "real value of unknown kind", PROPS)
    R.counts["emitter_calls"] = n
    R.check_floor()
    return R

"""R90 ROW-EXTENT (C03, C15): a vector of row pointers is filled over the whole extent it was allocated with.

Shape: a local or field V of type T** receives `calloc(E, sizeof(T *))` / `malloc(E * sizeof(T *))`, and a `for` loop
of the same function stores freshly allocated rows `V[i] = calloc/malloc(..)` for `i < B`.  The consumers of such a
vector in libvna (the extenders of vnadata_alloc.c, vnadata_resize, the accessors) take every row below the
*allocation* for present; when B is a smaller quantity than E (the logical size instead of the allocation) the rows
in between stay NULL and the first re-exposure (resize back up within the allocation) dereferences NULL.  Decided
textually on canonical expressions: B must be the same expression as E.  A loop with a different bound that stores
non-fresh values (copies of existing rows) is not of this shape.
"""
from ..core import Finding, RuleResult

PROPS = ("C03", "C15")
ALLOC = ("calloc", "malloc")


def _alloc_count(call):
    """count expression of a pointer-vector allocation, or None"""
    a = call.args()
    if call.callee == "calloc" and len(a) == 2:
        sz = a[1].strip().text().replace(" ", "")
        if sz.startswith("sizeof(") and sz.endswith("*)"):
            return a[0].strip()
    return None


def _norm(e):
    return e.text().replace(" ", "").replace("(", "").replace(")", "")


def run(P, tier="quick"):
    R = RuleResult("R90", "a loop that fills a freshly allocated vector of row pointers with fresh rows runs over the extent the "
                   "vector was allocated with", floor=2)
    n = 0
    for f in P.lib_functions():
        if f.body is None:
            continue
        vecs = {}          # text of the vector lvalue -> (count expr, call)
        for m in f.walk():
            tgt = rhs = None
            if m.k == "BinaryOperator" and m.op == "=":
                tgt, rhs = m.kids[0].strip(), m.kids[1].strip()
                while rhs.k == "BinaryOperator" and rhs.op == "=":
                    rhs = rhs.kids[1].strip()
            elif m.k == "VarDecl" and m.kids and m.kids[0] is not None:
                tgt, rhs = m, m.kids[0].strip()
            if rhs is None or rhs.k != "CallExpr" or rhs.callee not in ALLOC:
                continue
            cnt = _alloc_count(rhs)
            if cnt is None:
                continue
            name = tgt.get("name") if tgt.k == "VarDecl" else tgt.text()
            vecs[name.replace(" ", "")] = (cnt, rhs)
        if not vecs:
            continue
        for loop in f.walk():
            if loop.k != "ForStmt" or loop.kids[2] is None:
                continue
            cond = loop.kids[2].strip()
            if not (cond.k == "BinaryOperator" and cond.op == "<" and cond.kids[0].strip().k == "DeclRefExpr"):
                continue
            ivar = cond.kids[0].strip().refdecl
            bound = cond.kids[1].strip()
            for m in loop.walk():
                if not (m.k == "BinaryOperator" and m.op == "="):
                    continue
                l = m.kids[0].strip()
                if l.k != "ArraySubscriptExpr":
                    continue
                idx = l.kids[1].strip()
                if not (idx.k == "DeclRefExpr" and idx.refdecl == ivar):
                    continue
                base = l.kids[0].strip().text().replace(" ", "")
                r = m.kids[1].strip()
                if base not in vecs or r.k != "CallExpr" or r.callee not in ALLOC:
                    continue
                # innermost loop over ivar only
                inner = [a for a in m.ancestors() if a.k == "ForStmt"][0]
                if inner is not loop:
                    continue
                n += 1
                cnt, call = vecs[base]
                key = "R90|%s|%s|row-extent:%s" % (f.file, f.name, base)
                if _norm(bound) == _norm(cnt):
                    R.ok(key, PROPS)
                else:
                    R.violated(Finding("R90", PROPS, f.file, f.name, "row-extent:%s" % base,
                                       "`%s` is allocated with %s row pointers (line %d) but fresh rows are stored only for index < %s "
                                       "(line %d): the rows in between stay NULL although every consumer takes the rows below the "
                                       "allocation for present" % (base, cnt.text(), call.line, bound.text(), loop.line), loop.line))
    R.counts["row_fill_loops"] = n
    R.check_floor()
    return R

"""R91 CLASS-SIBLING (C13, C14): sibling positions classified with one family of character-class macros name the same
extra characters.

vnaproperty_quote_key decides per position whether a character must be escaped: `!ISIDCHAR1(key[0]) || key[0] == '\\\\'`
for the first position, `!ISIDCHAR(key[i]) || key[i] == '\\\\'` for the others.  The class macros accept the
backslash (it starts an escape in the scanner), so the explicit `== '\\\\'` disjunct is what gets a backslash inside a
key escaped; "quote_key turns any key into a descriptor component that addresses exactly that key" (C13) and "keys
that need quoting survive export and import" (C14) need it at every position.  Engler-style contradiction rule: in
one function, `if` conditions that apply macros of one family (same name up to a trailing digit: ISIDCHAR1/ISIDCHAR)
to elements of the same string must compare that element with the same set of explicit (non-macro) character
literals.  One says the character is special, its sibling does not: one of them is wrong.
"""
import re
from ..core import Finding, RuleResult

PROPS = ("C13", "C14")


def run(P, tier="quick"):
    R = RuleResult("R91", "if-conditions that classify elements of one string with macros of one family compare them with the same "
                   "explicit character literals", floor=1)
    n = 0
    for f in P.lib_functions():
        if f.body is None:
            continue
        groups = {}
        for s in f.walk():
            if s.k != "IfStmt" or not s.kids or s.kids[0] is None:
                continue
            c = s.kids[0]
            fams = set()
            for m in c.walk():
                for x in m.macros:
                    mm = re.match(r"^(IS[A-Z]+?)\d*$", x)
                    if mm:
                        fams.add(mm.group(1))
            if len(fams) != 1:
                continue
            # explicit comparisons  <string>[..] == 'c'  written outside any macro
            lits = set()
            base = None
            for m in c.walk():
                if m.k == "BinaryOperator" and m.op in ("==", "!=") and not m.macros:
                    a, b = m.kids[0].strip(), m.kids[1].strip()
                    for x, y in ((a, b), (b, a)):
                        if y.k == "CharacterLiteral" and not y.macros and x.k == "DeclRefExpr" and x.refkind == "local" and \
                                "char" in (x.ctype or x.type or ""):
                            # `const char c = key[pos];` hoisted in front of the test
                            d = [v for v in f.vardecls() if v.get("decl") == x.refdecl and v.kids and v.kids[0] is not None]
                            if d and d[0].kids[0].strip().k == "ArraySubscriptExpr":
                                x = d[0].kids[0].strip()
                        if y.k == "CharacterLiteral" and not y.macros and x.k == "ArraySubscriptExpr":
                            lits.add(y.val)
                            base = x.kids[0].strip().text()
                if m.k == "DeclRefExpr" and base is None and m.refkind == "local" and m.macros and "char" in (m.ctype or m.type or ""):
                    d = [v for v in f.vardecls() if v.get("decl") == m.refdecl and v.kids and v.kids[0] is not None]
                    if d and d[0].kids[0].strip().k == "ArraySubscriptExpr":
                        base = d[0].kids[0].strip().kids[0].strip().text()
                if m.k == "ArraySubscriptExpr" and base is None and m.kids[0].strip().k == "DeclRefExpr" and "char" in (m.kids[0].strip().ctype or ""):
                    base = m.kids[0].strip().text()
            groups.setdefault((list(fams)[0], base), []).append((s, frozenset(lits)))
        for (fam, base), conds in groups.items():
            if len(conds) < 2:
                continue
            n += 1
            key = "R91|%s|%s|class-sibling:%s" % (f.file, f.name, fam)
            sets = {ls for _, ls in conds}
            if len(sets) == 1:
                R.ok(key, PROPS)
            else:
                union = frozenset().union(*sets)
                bad = [(s, ls) for s, ls in conds if ls != union]
                s, ls = bad[0]
                miss = ", ".join(repr(chr(v)) for v in sorted(union - ls))
                R.violated(Finding("R91", PROPS, f.file, f.name, "class-sibling:%s" % fam,
                                   "the %s test of `%s` at line %d does not compare with %s, which the sibling test at line %d does: "
                                   "that character is treated as special at one position and as ordinary at the other"
                                   % (fam, base, s.line, miss, [x for x, l2 in conds if l2 == union or l2 != ls][0].line), s.line))
    R.counts["sibling_groups"] = n
    R.check_floor()
    return R

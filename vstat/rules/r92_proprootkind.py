"""R92 PROPERTY-ROOT-KIND (C14, C07): a loader does not refuse a property tree for the kind of its root node.

The exporter writes a scalar, a map, a list or a null as the root of a property tree (R86 kind-export), and the API
can build all four at the root of the global and of every per-calibration tree (`vnacal_property_set(vcp, ci,
"[0]=x")`).  The importer proper handles every kind (R86 kind-import).  What remains is the code between the file's
`properties` key and the importer: it must hand the node over whatever its type.  Instances: every `if` whose
condition matches the literal key "properties" (the loaders' key dispatch) and every function that passes one of
its own parameters as the node of `_vnaproperty_yaml_import`; a test of `<node>->type` inside such a branch /
function whose branch reports an error or returns the failure value is a finding: `vnacal_load` would reject a
file `vnacal_save` just wrote.
"""
from ..core import Finding, RuleResult
from ..failflow import REPORTERS, FIXED_REPORTERS

PROPS = ("C14", "C07")


def _refusing_type_tests(scope):
    out = []
    for s in scope.walk():
        if s.k != "IfStmt" or s.kids[0] is None:
            continue
        c = s.kids[0]
        if not any(m.k == "MemberExpr" and m.member == "type" and "yaml_node" in (m.kids[0].strip().ctype or m.kids[0].strip().type or "")
                   for m in c.walk()):
            continue
        then = s.kids[1]
        if then is None:
            continue
        refuses = any(x.k == "CallExpr" and (x.callee in REPORTERS or x.callee in FIXED_REPORTERS) for x in then.walk()) or \
            any(x.k == "ReturnStmt" and x.kids and x.kids[0] is not None and x.kids[0].strip().cv == -1 for x in then.walk())
        if refuses:
            out.append(s)
    return out


def run(P, tier="quick"):
    R = RuleResult("R92", "no refusal by node type between a file's `properties` key and the property importer", floor=2)
    n = 0
    for f in P.lib_functions():
        if f.body is None or f.file == "vnaproperty.c":
            continue
        # (a) wrappers: a parameter handed on as the node of the importer
        for c in f.calls("_vnaproperty_yaml_import"):
            a = c.args()
            if len(a) >= 3:
                n += 1
                key = "R92|%s|%s|wrapper" % (f.file, f.name)
                bad = _refusing_type_tests(f.body)
                if bad:
                    R.violated(Finding("R92", PROPS, f.file, f.name, "root-kind:wrapper",
                                       "%s refuses a property tree by the type of its root node (line %d) before handing it to the "
                                       "importer: a tree the exporter writes (scalar, map, list or null root) is rejected on load"
                                       % (f.name, bad[0].line), bad[0].line))
                else:
                    R.ok(key, PROPS)
        # (b) key dispatch: if (strcmp(key, "properties") == 0) { ... }
        for s in f.walk():
            if s.k != "IfStmt" or s.kids[0] is None:
                continue
            if not any(m.k == "StringLiteral" and m.val == "properties" for m in s.kids[0].walk()):
                continue
            then = s.kids[1]
            if then is None:
                continue
            n += 1
            key = "R92|%s|%s|key-dispatch#%d" % (f.file, f.name, n)
            bad = _refusing_type_tests(then)
            if bad:
                R.violated(Finding("R92", PROPS, f.file, f.name, "root-kind:key-dispatch",
                                   "the branch for the `properties` key refuses the node by its type (line %d): a property tree whose root "
                                   "is of another kind - which the API can build and the exporter writes - makes the loader reject the "
                                   "file the saver wrote" % bad[0].line, bad[0].line))
            else:
                R.ok(key, PROPS)
    R.counts["property_hand_over_sites"] = n
    R.check_floor()
    return R

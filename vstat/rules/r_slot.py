"""RET-INDEX (C11, C16): the index handed back to the caller is the slot the object was stored in.

(1) A function that stores a non-NULL object into `->vc_calibration_vector[I]`
    must return I on every return reachable after the store.
(2) A store `vprmc_vector[I] = P` of a new parameter is accompanied (same
    function) by `P->vpmr_index = I`, and the public make_*_parameter functions
    return `->vpmr_index` of the object obtained from _vnacal_alloc_parameter.
(3) vnacal_add_calibration returns the value it received from
    _vnacal_add_calibration_common.
(4) Delete operations clear exactly the slot they validated:
    `vc_calibration_vector[ci] = NULL` uses the guarded parameter.
"""
from ..core import Finding, RuleResult
from ..facts import AnalysisBroken
from ..canon import Canon
from ..util import is_null

PROPS = ("C11", "C16")


def _stores(f, field):
    out = []
    for n in f.walk():
        if n.k == "BinaryOperator" and n.op == "=":
            l = n.kids[0].strip()
            if l.k == "ArraySubscriptExpr":
                b = l.kids[0].strip()
                if b.k == "MemberExpr" and b.member == field:
                    out.append((n, l, n.kids[1]))
    return out


def run(P, tier="quick"):
    R = RuleResult("RET-INDEX", "returned index = stored slot: after `vc_calibration_vector[I] = obj` every reachable return "
                   "yields I; `vprmc_vector[I] = P` is paired with `P->vpmr_index = I`; public add/make functions hand that "
                   "value on unchanged", floor=6)
    nstores = 0
    for f in P.lib_functions():
        if f.cfg is None:
            continue
        for (asg, lhs, rhs) in _stores(f, "vc_calibration_vector"):
            if is_null(rhs):
                continue
            nstores += 1
            idx = lhs.kids[1].strip()
            key = "RET-INDEX|%s|%s|calibration-slot" % (f.file, f.name)
            if f.ret != "int":
                R.ok(key + "(void)", PROPS)
                continue
            if idx.k != "DeclRefExpr":
                R.unclassified(key, "slot index is not a variable: " + idx.text(), PROPS)
                continue
            pos = f.cfg.pos_of(asg)
            bad = None
            for r in f.returns():
                rp = f.cfg.pos_of(r)
                if rp is None or pos is None:
                    continue
                after = (rp[0] == pos[0] and rp[1] > pos[1]) or (rp[0] in f.cfg.reachable_from(pos[0]) and rp[0] != pos[0])
                if not after:
                    continue
                e = r.kids[0].strip() if r.kids else None
                if e is None or e.k != "DeclRefExpr" or e.refdecl != idx.refdecl:
                    bad = (r, e)
            # index variable must not be redefined between the store and the return
            for n in f.walk():
                if n.k in ("BinaryOperator", "CompoundAssignOperator") and n.op and n.op.endswith("=") and \
                        n.op not in ("==", "!=", "<=", ">=") and n.kids[0].strip().k == "DeclRefExpr" and \
                        n.kids[0].strip().refdecl == idx.refdecl:
                    np_ = f.cfg.pos_of(n)
                    if np_ and pos and ((np_[0] == pos[0] and np_[1] > pos[1]) or
                                        (np_[0] != pos[0] and np_[0] in f.cfg.reachable_from(pos[0]))):
                        bad = (n, None)
            if bad:
                r, e = bad
                R.violated(Finding("RET-INDEX", PROPS, f.file, f.name, "calibration-slot",
                                   "object is stored in vc_calibration_vector[%s] but the function returns '%s'" %
                                   (idx.text(), e.text() if e is not None else r.text()), r.line))
            else:
                R.ok(key, PROPS)
        for (asg, lhs, rhs) in _stores(f, "vprmc_vector"):
            if is_null(rhs):
                continue
            nstores += 1
            idx = lhs.kids[1].strip()
            obj = rhs.strip()
            key = "RET-INDEX|%s|%s|parameter-slot" % (f.file, f.name)
            okk = False
            for n in f.walk():
                if n.k == "BinaryOperator" and n.op == "=":
                    l = n.kids[0].strip()
                    if l.k == "MemberExpr" and l.member == "vpmr_index" and l.kids[0].strip().k == "DeclRefExpr" and \
                            obj.k == "DeclRefExpr" and l.kids[0].strip().refdecl == obj.refdecl:
                        r = n.kids[1].strip()
                        if r.k == "DeclRefExpr" and idx.k == "DeclRefExpr" and r.refdecl == idx.refdecl:
                            okk = True
            if okk:
                R.ok(key, PROPS)
            else:
                R.violated(Finding("RET-INDEX", PROPS, f.file, f.name, "parameter-slot",
                                   "parameter stored at vprmc_vector[%s] without recording the same index in vpmr_index" % idx.text(), asg.line))
    if nstores < 2:
        raise AnalysisBroken("RET-INDEX: slot stores not found")
    # (3) vnacal_add_calibration
    f = P.need_func("vnacal_add_calibration")
    CN = Canon(f)
    vals = set()
    for r in f.returns():
        e = r.kids[0].strip()
        if e.cv == -1:
            continue
        vals.add(CN.path(e))
    good = len(vals) == 1 and next(iter(vals)).startswith("_vnacal_add_calibration_common(")
    if good:
        R.ok("RET-INDEX|vnacal_add_calibration.c|vnacal_add_calibration|passes-slot", PROPS)
    else:
        R.violated(Finding("RET-INDEX", PROPS, f.file, f.name, "passes-slot", "success return value is %s, expected the value "
                           "returned by _vnacal_add_calibration_common" % sorted(vals), f.line))
    # (2b) make_*_parameter
    for nm in ("vnacal_make_scalar_parameter", "vnacal_make_vector_parameter", "vnacal_make_unknown_parameter",
               "vnacal_make_correlated_parameter"):
        f = P.need_func(nm)
        CN = Canon(f)
        vals = set()
        for r in f.returns():
            e = r.kids[0].strip()
            if e.cv is not None:
                continue
            vals.add(CN.path(e))
        if len(vals) == 1 and next(iter(vals)).startswith("_vnacal_alloc_parameter(") and next(iter(vals)).endswith("->vpmr_index"):
            R.ok("RET-INDEX|%s|%s|returns-vpmr_index" % (f.file, nm), PROPS)
        else:
            R.violated(Finding("RET-INDEX", PROPS, f.file, nm, "returns-vpmr_index", "non-constant return values are %s, expected "
                               "_vnacal_alloc_parameter(...)->vpmr_index" % sorted(vals), f.line))
    # (4) delete clears the validated slot
    f = P.need_func("vnacal_delete_calibration")
    CN = Canon(f)
    okd = False
    for (asg, lhs, rhs) in _stores(f, "vc_calibration_vector"):
        if is_null(rhs) and CN.path(lhs) == "$0->vc_calibration_vector[$1]":
            okd = True
    if okd:
        R.ok("RET-INDEX|vnacal_delete_calibration.c|vnacal_delete_calibration|clears-own-slot", PROPS)
    else:
        R.violated(Finding("RET-INDEX", PROPS, f.file, f.name, "clears-own-slot", "does not store NULL into vc_calibration_vector[ci]", f.line))
    # (5) replace-by-name: once the search loop has matched the name, the matched index is the slot used
    from ..flow import Engine
    from ..consttrack import ConstTracker
    f = P.need_func("_vnacal_add_calibration_common")
    match = None
    idxvar = None
    for n in f.walk():
        if n.k == "BinaryOperator" and n.op == "==" and n.kids[1].strip().cv == 0 and n.kids[0].strip().k == "CallExpr" and \
                n.kids[0].strip().callee == "strcmp":
            for a in n.kids[0].strip().args():
                a_s = a.strip()
                if a_s.k == "MemberExpr" and a_s.member == "cal_name":
                    sub = a_s.kids[0].strip()
                    if sub.k == "DeclRefExpr" and sub.refkind == "local":
                        # `existing = vcp->vc_calibration_vector[cur]` hoisted into a local
                        sd = Canon(f).single_def(sub.refdecl)
                        if sd is not None:
                            sub = sd.strip()
                    if sub.k == "ArraySubscriptExpr" and sub.kids[1].strip().k == "DeclRefExpr":
                        match = n
                        idxvar = sub.kids[1].strip().refdecl
    if match is None:
        raise AnalysisBroken("_vnacal_add_calibration_common: name comparison not found")

    class MatchTracker(ConstTracker):
        def __init__(self, fn):
            ConstTracker.__init__(self, fn)
            self.bad = None

        def on_branch(self, ints, extra, cond, truth, ctx):
            c = cond.strip()
            if c is match and truth:
                return extra | {"matched"}
            # idx < E  /  idx == E on the same extent expression
            if c.k == "BinaryOperator" and c.op in ("<", "==", "!=", ">=") and c.kids[0].strip().k == "DeclRefExpr" and \
                    c.kids[0].strip().refdecl == idxvar:
                e = c.kids[1].text()
                lt = ("lt", e) in extra
                if c.op == "<":
                    return (extra | {("lt", e)}) if truth else extra
                if c.op == ">=":
                    return (extra | {("lt", e)}) if not truth else extra
                if c.op == "==" and truth and lt:
                    return None
                if c.op == "!=" and not truth and lt:
                    return None
            return extra

        def on_node(self, ints, extra, n, ctx):
            if n.k in ("BinaryOperator", "CompoundAssignOperator", "UnaryOperator") and n.kids and \
                    n.kids[0].strip().k == "DeclRefExpr" and n.kids[0].strip().refdecl == idxvar and \
                    (n.k != "BinaryOperator" or n.op == "=") and (n.k != "UnaryOperator" or n.op in ("++", "--")):
                if "matched" not in extra:
                    return frozenset(x for x in extra if not (isinstance(x, tuple) and x[0] == "lt"))
            if "matched" in extra and self.bad is None:
                if n.k in ("BinaryOperator", "CompoundAssignOperator") and n.op and n.op.endswith("=") and \
                        n.op not in ("==", "!=", "<=", ">=") and n.kids[0].strip().k == "DeclRefExpr" and \
                        n.kids[0].strip().refdecl == idxvar:
                    self.bad = n
                if n.k == "UnaryOperator" and n.op in ("++", "--") and n.kids[0].strip().k == "DeclRefExpr" and \
                        n.kids[0].strip().refdecl == idxvar:
                    # the loop increment after a match cannot happen (break): only flag if reachable
                    self.bad = n
            return extra
    mt = MatchTracker(f)
    Engine(f, mt, 100000).run()
    if mt.bad is None:
        R.ok("RET-INDEX|vnacal_calibration.c|_vnacal_add_calibration_common|replace-uses-matched-slot", PROPS)
    else:
        R.violated(Finding("RET-INDEX", PROPS | {"C07"} if isinstance(PROPS, set) else set(PROPS) | {"C07"}, f.file, f.name,
                           "replace-uses-matched-slot", "after the name search matched an existing calibration the slot index is "
                           "overwritten at line %d (%s): the calibration is not replaced in its own slot and a duplicate name "
                           "results" % (mt.bad.line, mt.bad.text()[:60]), mt.bad.line))
    # (6) ordered hash chains: every function that links an element into a chain some reader scans with an
    #     ordered early exit must itself search the insertion point in order
    readers = {}
    writers = {}
    for g in P.lib_functions():
        if g.body is None:
            continue
        for n in g.walk():
            if n.k == "BinaryOperator" and n.op == "=" and n.kids[0].strip().k == "MemberExpr" and \
                    (n.kids[0].strip().member or "").endswith("_hash_next"):
                writers.setdefault(n.kids[0].strip().member, set()).add(g.key())
        for lp in g.walk():
            if lp.k in ("ForStmt", "WhileStmt"):
                adv = None
                for m in lp.walk():
                    if m.k == "MemberExpr" and (m.member or "").endswith("_hash_next"):
                        adv = m.member
                if adv is None:
                    continue
                ordered = any(m.k == "BinaryOperator" and m.op in (">", ">=", "<", "<=") and
                              any(x.k == "MemberExpr" and x.member in ("vpmr_index",) for x in m.walk()) or
                              (m.k == "BinaryOperator" and m.op in (">", ">=") and "index" in m.kids[0].text() and
                               m.kids[1].strip().k == "DeclRefExpr")
                              for m in lp.walk())
                if ordered:
                    readers.setdefault(adv, set()).add(g.key())
    # direction of the ordered exit: element-index OP key, normalised with the chain element on the left
    def exit_ops(g):
        ops = set()
        for m in g.walk():
            if m.k != "BinaryOperator" or m.op not in (">", ">=", "<", "<="):
                continue
            lp = None
            for a_ in m.ancestors():
                if a_.k in ("ForStmt", "WhileStmt"):
                    lp = a_
                    break
            if lp is None or not any(x.k == "MemberExpr" and (x.member or "").endswith("_hash_next") for x in lp.walk()):
                continue
            kids_ = [x for x in lp.kids if x is not None]
            cond_ = lp.kids[2] if lp.k == "ForStmt" else (kids_[-2] if len(kids_) >= 2 else None)
            l, r = m.kids[0], m.kids[1]
            lel = any(x.k == "MemberExpr" and x.member == "vpmr_index" for x in l.walk()) or \
                (l.strip().k == "DeclRefExpr" and l.strip().refname == "index")
            rel = any(x.k == "MemberExpr" and x.member == "vpmr_index" for x in r.walk())
            op = m.op
            # a comparison in the loop's own condition says when the scan *continues*: the scan stops on its negation
            if cond_ is not None and (cond_ is m or cond_.is_ancestor_of(m)):
                op = {">": "<=", ">=": "<", "<": ">=", "<=": ">"}[op]
            if lel and not rel:
                ops.add(op)
            elif rel and not lel:
                ops.add({">": "<", "<": ">", ">=": "<=", "<=": ">="}[op])
        return ops
    for fld, ws in sorted(writers.items()):
        rs = readers.get(fld, set())
        pure_readers = rs - ws
        if not pure_readers:
            continue
        for w in sorted(ws):
            file, name = w.split(":")
            rops = set()
            for r_ in pure_readers:
                rf, rn = r_.split(":")
                rops |= exit_ops(P.func(rn, rf))
            wops = exit_ops(P.func(name, file)) if w in rs else set()
            if w in rs and wops and rops and not (wops <= {o for o in rops} | {o + "=" for o in rops if len(o) == 1}):
                R.violated(Finding("RET-INDEX", {"C16", "C20", "C17", "C01"}, file, name, "ordered-chain-direction:" + fld,
                                   "%s stops its insertion search on `element index %s new index` but the readers stop scanning on "
                                   "`element index %s key`: the chain order the readers rely on is not the order the writer builds" %
                                   (name, "/".join(sorted(wops)), "/".join(sorted(rops))), P.func(name, file).line))
            elif w in rs:
                R.ok("RET-INDEX|%s|%s|ordered-chain:%s" % (file, name, fld), {"C16", "C20", "C17", "C01"})
            else:
                R.violated(Finding("RET-INDEX", {"C16", "C20", "C17", "C01"}, file, name, "ordered-chain:" + fld,
                                   "%s links elements through %s without searching the insertion point in index order, but %s "
                                   "stops scanning at the first larger index: elements become unreachable" %
                                   (name, fld, ", ".join(sorted(x.split(":")[1] for x in pure_readers))), P.func(name, file).line))
    # (7) paired update: a parameter's value vector is replaced only together with its frequency vector
    for g in P.lib_functions():
        if g.cfg is None:
            continue
        for n in g.walk():
            if n.k == "BinaryOperator" and n.op == "=" and n.kids[0].strip().k == "MemberExpr" and \
                    n.kids[0].strip().member == "gamma_vector" and not is_null(n.kids[1]) and \
                    "vpmr_gamma_vector" in n.kids[0].strip().macros:
                base = n.kids[0].strip()
                while base.k == "MemberExpr":
                    base = base.kids[0].strip()
                okp = False
                for m in g.walk():
                    dest = None
                    if m.k == "CallExpr" and m.callee == "memcpy" and m.args():
                        dest = m.args()[0]
                    elif m.k == "BinaryOperator" and m.op == "=" and m is not n:
                        dest = m.kids[0]
                    if dest is None:
                        continue
                    d = dest.strip()
                    if any(x.k == "MemberExpr" and x.member == "frequency_vector" and "vpmr_frequency_vector" in x.macros
                           for x in d.walk()) and g.cfg.node_dominates(m, n):
                        db = d
                        while db.k in ("MemberExpr", "CStyleCastExpr", "ImplicitCastExpr", "ParenExpr"):
                            db = db.kids[0].strip() if db.k != "MemberExpr" else db.kids[0].strip()
                        if db.k == "DeclRefExpr" and base.k == "DeclRefExpr" and db.refdecl == base.refdecl:
                            okp = True
                key = "RET-INDEX|%s|%s|gamma-with-frequencies" % (g.file, g.name)
                if okp:
                    R.ok(key, {"C16", "C02"})
                else:
                    R.violated(Finding("RET-INDEX", {"C16", "C02"}, g.file, g.name, "gamma-with-frequencies",
                                       "vpmr_gamma_vector is replaced at line %d on a path where vpmr_frequency_vector of the same "
                                       "parameter has not been rewritten: the new values are paired with a stale frequency grid" % n.line, n.line))
    R.check_floor()
    return R

"""RET-INDEX (C11, C16): the index handed back to the caller is the slot the object was stored in.

(1) A function that stores a non-NULL object into `->vc_calibration_vector[I]`
    must return I on every return reachable after the store.
(2) A store `vprmc_vector[I] = P` of a new parameter is accompanied (same
    function) by `P->vpmr_index = I`, and the public make_*_parameter functions
    return `->vpmr_index` of the object obtained from _vnacal_alloc_parameter.
(3) vnacal_add_calibration returns the value it received from
    _vnacal_add_calibration_common.
(4) Delete operations clear exactly the slot they validated:
    `vc_calibration_vector[ci] = NULL` uses the guarded parameter.
"""
from ..core import Finding, RuleResult
from ..facts import AnalysisBroken
from ..canon import Canon
from ..util import is_null

PROPS = ("C11", "C16")


def _stores(f, field):
    out = []
    for n in f.walk():
        if n.k == "BinaryOperator" and n.op == "=":
            l = n.kids[0].strip()
            if l.k == "ArraySubscriptExpr":
                b = l.kids[0].strip()
                if b.k == "MemberExpr" and b.member == field:
                    out.append((n, l, n.kids[1]))
    return out


def run(P, tier="quick"):
    R = RuleResult("RET-INDEX", "returned index = stored slot: after `vc_calibration_vector[I] = obj` every reachable return "
                   "yields I; `vprmc_vector[I] = P` is paired with `P->vpmr_index = I`; public add/make functions hand that "
                   "value on unchanged", floor=6)
    nstores = 0
    for f in P.lib_functions():
        if f.cfg is None:
            continue
        for (asg, lhs, rhs) in _stores(f, "vc_calibration_vector"):
            if is_null(rhs):
                continue
            nstores += 1
            idx = lhs.kids[1].strip()
            key = "RET-INDEX|%s|%s|calibration-slot" % (f.file, f.name)
            if f.ret != "int":
                R.ok(key + "(void)", PROPS)
                continue
            if idx.k != "DeclRefExpr":
                R.unclassified(key, "slot index is not a variable: " + idx.text(), PROPS)
                continue
            pos = f.cfg.pos_of(asg)
            bad = None
            for r in f.returns():
                rp = f.cfg.pos_of(r)
                if rp is None or pos is None:
                    continue
                after = (rp[0] == pos[0] and rp[1] > pos[1]) or (rp[0] in f.cfg.reachable_from(pos[0]) and rp[0] != pos[0])
                if not after:
                    continue
                e = r.kids[0].strip() if r.kids else None
                if e is None or e.k != "DeclRefExpr" or e.refdecl != idx.refdecl:
                    bad = (r, e)
            # index variable must not be redefined between the store and the return
            for n in f.walk():
                if n.k in ("BinaryOperator", "CompoundAssignOperator") and n.op and n.op.endswith("=") and \
                        n.op not in ("==", "!=", "<=", ">=") and n.kids[0].strip().k == "DeclRefExpr" and \
                        n.kids[0].strip().refdecl == idx.refdecl:
                    np_ = f.cfg.pos_of(n)
                    if np_ and pos and ((np_[0] == pos[0] and np_[1] > pos[1]) or
                                        (np_[0] != pos[0] and np_[0] in f.cfg.reachable_from(pos[0]))):
                        bad = (n, None)
            if bad:
                r, e = bad
                R.violated(Finding("RET-INDEX", PROPS, f.file, f.name, "calibration-slot",
                                   "object is stored in vc_calibration_vector[%s] but the function returns '%s'" %
                                   (idx.text(), e.text() if e is not None else r.text()), r.line))
            else:
                R.ok(key, PROPS)
        for (asg, lhs, rhs) in _stores(f, "vprmc_vector"):
            if is_null(rhs):
                continue
            nstores += 1
            idx = lhs.kids[1].strip()
            obj = rhs.strip()
            key = "RET-INDEX|%s|%s|parameter-slot" % (f.file, f.name)
            okk = False
            for n in f.walk():
                if n.k == "BinaryOperator" and n.op == "=":
                    l = n.kids[0].strip()
                    if l.k == "MemberExpr" and l.member == "vpmr_index" and l.kids[0].strip().k == "DeclRefExpr" and \
                            obj.k == "DeclRefExpr" and l.kids[0].strip().refdecl == obj.refdecl:
                        r = n.kids[1].strip()
                        if r.k == "DeclRefExpr" and idx.k == "DeclRefExpr" and r.refdecl == idx.refdecl:
                            okk = True
            if okk:
                R.ok(key, PROPS)
            else:
                R.violated(Finding("RET-INDEX", PROPS, f.file, f.name, "parameter-slot",
                                   "parameter stored at vprmc_vector[%s] without recording the same index in vpmr_index" % idx.text(), asg.line))
    if nstores < 2:
        raise AnalysisBroken("RET-INDEX: slot stores not found")
    # (3) vnacal_add_calibration
    f = P.need_func("vnacal_add_calibration")
    CN = Canon(f)
    vals = set()
    for r in f.returns():
        e = r.kids[0].strip()
        if e.cv == -1:
            continue
        vals.add(CN.path(e))
    good = len(vals) == 1 and next(iter(vals)).startswith("_vnacal_add_calibration_common(")
    if good:
        R.ok("RET-INDEX|vnacal_add_calibration.c|vnacal_add_calibration|passes-slot", PROPS)
    else:
        R.violated(Finding("RET-INDEX", PROPS, f.file, f.name, "passes-slot", "success return value is %s, expected the value "
                           "returned by _vnacal_add_calibration_common" % sorted(vals), f.line))
    # (2b) make_*_parameter
    for nm in ("vnacal_make_scalar_parameter", "vnacal_make_vector_parameter", "vnacal_make_unknown_parameter",
               "vnacal_make_correlated_parameter"):
        f = P.need_func(nm)
        CN = Canon(f)
        vals = set()
        for r in f.returns():
            e = r.kids[0].strip()
            if e.cv is not None:
                continue
            vals.add(CN.path(e))
        if len(vals) == 1 and next(iter(vals)).startswith("_vnacal_alloc_parameter(") and next(iter(vals)).endswith("->vpmr_index"):
            R.ok("RET-INDEX|%s|%s|returns-vpmr_index" % (f.file, nm), PROPS)
        else:
            R.violated(Finding("RET-INDEX", PROPS, f.file, nm, "returns-vpmr_index", "non-constant return values are %s, expected "
                               "_vnacal_alloc_parameter(...)->vpmr_index" % sorted(vals), f.line))
    # (4) delete clears the validated slot
    f = P.need_func("vnacal_delete_calibration")
    CN = Canon(f)
    okd = False
    for (asg, lhs, rhs) in _stores(f, "vc_calibration_vector"):
        if is_null(rhs) and CN.path(lhs) == "$0->vc_calibration_vector[$1]":
            okd = True
    if okd:
        R.ok("RET-INDEX|vnacal_delete_calibration.c|vnacal_delete_calibration|clears-own-slot", PROPS)
    else:
        R.violated(Finding("RET-INDEX", PROPS, f.file, f.name, "clears-own-slot", "does not store NULL into vc_calibration_vector[ci]", f.line))
    R.check_floor()
    return R

"""Small helpers shared by the rules."""


class CannotEval(Exception):
    pass


def eval_int(n, env=None):
    """Evaluate an integer expression tree.  env maps variable names to ints."""
    env = env or {}
    n = n.strip()
    k = n.k
    if k in ("IntegerLiteral", "CharacterLiteral"):
        return n.val
    if k == "DeclRefExpr":
        r = n.ref
        if r["kind"] == "enum":
            return r["val"]
        if r.get("name") in env:
            return env[r["name"]]
        raise CannotEval(n.text())
    if "cv" in n.d and not _mentions(n, env):
        return n.d["cv"]
    if k == "BinaryOperator":
        op = n.op
        if op == "&&":
            return int(bool(eval_int(n.kids[0], env)) and bool(eval_int(n.kids[1], env)))
        if op == "||":
            return int(bool(eval_int(n.kids[0], env)) or bool(eval_int(n.kids[1], env)))
        a = eval_int(n.kids[0], env)
        b = eval_int(n.kids[1], env)
        if op == "+": return a + b
        if op == "-": return a - b
        if op == "*": return a * b
        if op == "/":
            if b == 0: raise CannotEval("div0")
            q = abs(a) // abs(b)
            return q if (a >= 0) == (b >= 0) else -q
        if op == "%":
            if b == 0: raise CannotEval("div0")
            return a - b * (abs(a) // abs(b) * (1 if (a >= 0) == (b >= 0) else -1))
        if op == "&": return a & b
        if op == "|": return a | b
        if op == "^": return a ^ b
        if op == "<<": return a << b
        if op == ">>": return a >> b
        if op == "==": return int(a == b)
        if op == "!=": return int(a != b)
        if op == "<": return int(a < b)
        if op == ">": return int(a > b)
        if op == "<=": return int(a <= b)
        if op == ">=": return int(a >= b)
        raise CannotEval(op)
    if k == "UnaryOperator":
        a = eval_int(n.kids[0], env)
        if n.op == "-": return -a
        if n.op == "+": return a
        if n.op == "~": return ~a
        if n.op == "!": return int(not a)
        raise CannotEval(n.op)
    if k == "ConditionalOperator":
        return eval_int(n.kids[1], env) if eval_int(n.kids[0], env) else eval_int(n.kids[2], env)
    raise CannotEval(k + ":" + n.text())


def _mentions(n, env):
    if not env:
        return False
    for m in n.walk():
        if m.k == "DeclRefExpr" and m.refname in env:
            return True
    return False


def is_null(n):
    """expression is a literal null pointer constant"""
    n = n.strip()
    if n.k == "IntegerLiteral" and n.val == 0:
        return True
    if n.k == "GNUNullExpr":
        return True
    return False


def base_var(n):
    """For p, p->a.b, p[i].c, (*p).x : return the DeclRefExpr node of the base variable."""
    n = n.strip()
    while True:
        if n.k == "DeclRefExpr":
            return n
        if n.k in ("MemberExpr", "ArraySubscriptExpr") and n.kids:
            n = n.kids[0].strip()
            continue
        if n.k == "UnaryOperator" and n.op in ("*", "&") and n.kids:
            n = n.kids[0].strip()
            continue
        return None


def access_path(n):
    """Normalised textual access path without casts/parens, e.g. vdip->vdi_z0_vector[findex]."""
    n = n.strip()
    k = n.k
    if k == "DeclRefExpr":
        return n.refname or "?"
    if k == "MemberExpr":
        return access_path(n.kids[0]) + ("->" if n.get("arrow") else ".") + (n.member or "?")
    if k == "ArraySubscriptExpr":
        return access_path(n.kids[0]) + "[" + access_path(n.kids[1]) + "]"
    if k == "UnaryOperator" and not n.get("postfix"):
        return n.op + access_path(n.kids[0])
    if k == "UnaryOperator":
        return access_path(n.kids[0]) + n.op
    if k == "BinaryOperator":
        return "(" + access_path(n.kids[0]) + n.op + access_path(n.kids[1]) + ")"
    if k == "IntegerLiteral":
        return str(n.val)
    if k == "CallExpr":
        return (n.callee or "?") + "(" + ",".join(access_path(a) for a in n.args()) + ")"
    return n.text()


def enclosing(n, kinds):
    for a in n.ancestors():
        if a.k in kinds:
            return a
    return None


def in_subtree(n, root):
    return root.is_ancestor_of(n)


def assigned_rhs(n):
    """If n is `x = e` return (lhs, rhs) else None."""
    n = n.strip()
    if n.k == "BinaryOperator" and n.op == "=":
        return n.kids[0], n.kids[1]
    return None
